#!/usr/bin/env python3
"""Regenerates /verif/MANIFEST.json from the per-property registry below."""
import json
import os

VERIF = os.path.dirname(os.path.dirname(os.path.abspath(__file__)))

NA = {
 "C01": "source/target semantic equivalence for all programs x inputs is a functional-correctness theorem over values (path arithmetic, desugaring); no sound static argument in reach (DESIGN 4)",
 "C02": "equality of results across optimisation levels is a value-level relation between executions of two emitted programs (DESIGN 4)",
 "C03": "the classic compiler is CLVM data interpreted at compile time; its meaning lies outside any analysis of the Rust program (DESIGN 4)",
 "C04": "soundness of CLVM rewrite rules for any args is an algebraic identity over evaluator semantics, not a shape-of-code fact (DESIGN 4)",
 "C09": "printer/reader inverse over all byte strings is about the values of two character-class automata (DESIGN 4)",
 "C15": "source locations are column arithmetic per input byte; numeric, per input (DESIGN 4)",
 "C16": "partial evaluator vs code generator is an equivalence of two interpreters over values (DESIGN 4)",
 "C17": "soundness of the unused-argument report is non-interference over pairs of runs (DESIGN 4)",
}
PENDING = "static rule designed in DESIGN section 3; check not yet registered (under construction)"

CHECKS = {
 "C12": {
  "text": "PARTIAL. CldbRun::step is the only producer of trace rows. Decided on every path of its MIR: each reported field "
          "derives from the matching component of the RunStep transition (Value<-OpResult.1, Final<-Done.1, Failure<-RunErr.1, "
          "Throw<-RunExn.1, Operator<-Op.0, Row<-the row counter, context = (Op.0, Op.1, Op.2) in order); every terminal "
          "transition inserts its Final/Failure/Throw entry, marks the run ended and produces a row; the row counter is "
          "incremented exactly when a row is returned (consecutive numbering); the next state is the transition just "
          "computed, stored before every return; every operator row is handed its own arguments (never None, so no entry of an "
          "earlier operator survives in the pending row). Quantifies over every step of every execution, which sampled traces cannot.",
  "note": "NOT decided (value-level): that reported values equal the consensus evaluator's (that is C06's undecided part), "
          "cldb_hierarchy's grouping by function, hex-supplied vs source-form equivalence. Breaking a decided clause breaks "
          "the property; satisfying them does not establish it. One known finding (F20: rows of apply report the next "
          "sub-step's value; pinned by the existing tests, not repaired). The hex loader must build leaves through "
          "convert_from_clvm_rs (R12.hex).",
  "technique": "MIR value-flow (pure slices to enum downcasts) + must-pass-through / dominance",
  "design": "3.12",
 },
 "C06": {
  "text": "PARTIAL. Sibling comparison of the stepping evaluator's own operator handling with the consensus evaluator, both "
          "recovered from MIR on the current sources: the argument counts it enforces for i/c/a/f/r equal the const-generic N of "
          "get_args::<N> in the consensus implementation reached through ChiaDialect::op (and run_program's apply); every "
          "environment lookup flattens the path to a non-negative number, answers the all-zero path before the halving descent "
          "(found F18, fixed) and takes first on an even / rest on an odd step; opcode 1 returns its tail unevaluated; apply_op "
          "quotes the evaluated arguments by position ((nil . args), references 5, 2s+1, head unchanged) and returns the "
          "Reduction's value, which comes back through a conversion that presents an atom as an integer only if re-encoding "
          "it gives the same bytes; an operator atom is identified by its exact bytes (found F19, F26, fixed). Holds for every "
          "program at once; tests run fixed programs.",
  "note": "NOT decided (value-level): agreement of results and failures in general — truthiness, big-integer conversions, "
          "evaluation order, results of delegated operators, cost and step limits. Breaking a decided clause breaks the property; "
          "satisfying them does not establish it. Opcode constants of the step machine are decided under C20 (R20.STEP). One "
          "known finding (F25: a pair in head position is evaluated as a program instead of ((X) args) = apply X to the "
          "unevaluated args).",
  "technique": "MIR constant/edge recovery + sibling comparison against clvmr's MIR facts + must-pass-through",
  "design": "3.11",
 },
 "C07": {
  "text": "PARTIAL. Decides three structural clauses that are necessary for the hash/equality part of the property, on the "
          "current sources: (frame) the three tree-hash implementations in the crate (rich form, CLVM form, symbol/relabel "
          "table builder) absorb exactly [0x02, H(first), H(rest)] for a pair and [0x01, bytes] for an atom, recovered from "
          "MIR as the dominance-ordered sequence of hasher feeds; (zero) hashing and CLVM conversion of the rich form guard "
          "the empty-atom treatment of integer zero by the same test; (hash) <SExp as Hash> feeds the hasher only child "
          "nodes and atom byte vectors and turns integers into bytes with the same function equal_to uses, and == is "
          "equal_to. Each holds for every input at once; a test samples atoms.",
  "note": "NOT decided (value-level): losslessness of convert_from/convert_to for every byte string, hash equality with "
          "the consensus clvm tree hash implementation outside the crate, the 'exactly when' direction of the equality clause. "
          "Breaking any decided clause breaks the property; satisfying them does not establish it.",
  "technique": "MIR event-sequence extraction (dominance-ordered hasher feeds) + sibling comparison + type-driven feed inventory",
  "design": "3.10",
 },
 "C08": {
  "text": "Static comparison of the writer's length-class table, recovered from MIR as a guard chain plus symbolic byte "
          "expressions of the atom size (shifts/masks/ors only, hence exactly checkable on single-bit sizes and boundaries), with "
          "the format's closed form; every stream read of the reader is length-checked before use with the mismatch edge "
          "returning only errors; reader limit = writer's last threshold; literal classes mirror; pairs written marker-first-"
          "rest; every chunk the serialising iterator yields is the checked table's result, a replayed payload of the "
          "allocator's own atom bytes, or the constant pair marker (no second, unchecked atom encoder); each chunk is written to "
          "the stream in the iteration that produced it; the reader accepts no wider length prefix than clvmr's; the reader singles out no first-byte value the writer does not emit as such "
          "and any second table of size classes in the module uses the writer's boundaries only (R08.h); reads may go through typed, length-checked wrappers. Decides these structural "
          "clauses for every atom length at once (tests only sample lengths).",
  "note": "Not decided: byte-identity with clvmr::serde for all atoms and acceptance-set equality with the consensus "
          "deserialiser. A table-driven rewrite of the writer is reported as anchor-lost (accepted cost, stated in DESIGN).",
  "technique": "MIR symbolic expression recovery + closed-form comparison + dominance rules",
  "design": "3.8",
 },
 "C13": {
  "text": "Four value-provenance obligations decided over MIR on every path: add_defun hashes value.code, stores the same value, "
          "keys the symbol by that hash and maps it to the function's own name/arguments; codegen_ hands add_defun the unchanged "
          "result of the last per-function rewrite; finalize_env_ lays the stored code into the environment through clone/borrow "
          "only; the reported symbols are copied from function_symbols after the last codegen_ call; nested compilations use a "
          "fresh table; synthesised functions report their own arguments; source locations never overwrite name entries; the "
          "extraction search (path_to_function) compares atom nodes too. Structural clause only.",
  "note": "Not decided: that whole-program passes leave quoted bodies untouched; the 'every reachable function has an entry' "
          "clause; the behavioural 'extracting and running gives the function's result' clause (value-level).",
  "technique": "MIR value-flow (derives-from) obligations + combinator-chain analysis",
  "design": "3.7",
 },
 "C10": {
  "text": "Decides, on every path of the current sources, the presence of the rejection mechanisms the property depends on: "
          "guarded-insert typestate for the inline-recursion set and for duplicate assign bindings, redefinition guard on both "
          "tables before every add_defun/add_inline (combinator-chain analysis), strict-dialect unbound-identifier guard "
          "(edge polarity), reporting/propagation of the toposort deadlock, the sort loop examining every item, and an "
          "inventory of error-discarding combinators on compile errors (a swallowed CompileErr no longer rejects). Structural "
          "clause only.",
  "note": "Does not decide that every use position reaches these mechanisms (macro output, evaluator paths), nor termination in "
          "general. One reviewed exception (tables/c10_exceptions.json).",
  "technique": "MIR dominance / edge-polarity rules + Result-combinator chain analysis",
  "design": "3.6",
 },
 "C11": {
  "text": "Sibling comparison on the type-checked program: the functions that derive optimiser options from the detected "
          "dialect and feed compile_file are discovered, their boolean setter arguments are recovered symbolically from MIR "
          "and must be identical across sites; the finalising-optimiser flag must be the same flag; all entry points (library, "
          "file-to-file, Python binding, run, cldb) must reach the compiler only through these sites; classic path built alike. "
          "Decides the structural clause (same options by construction), not byte equality of outputs.",
  "note": "Equal options => equal bytes is C05. Printing clause is C09 (n/a). wasm/ cannot be built offline (it calls "
          "compile_clvm_inner, which is covered). Siblings are compared with each other, never with a frozen expression.",
  "technique": "MIR symbolic boolean recovery + sibling comparison + who-may-call",
  "design": "3.5",
 },
 "C14": {
  "text": "Static inventory (from MIR) of panic-capable sites of fixed kinds reachable from the front-end entry points - "
          "constant-index accesses, constant-start and computed-range slicing (sequences: bound compared with the length; strings: "
          "bounds from find/len searches), unwrap/expect, explicit panics, integer and big-integer division - "
          "each discharged on every path by a forward length-domain abstract interpretation with helper summaries, an "
          "infallible-producer list, a dominating Some/Ok test, a constant divisor or a reviewed table line; plus: every "
          "compile-time CLVM evaluation started by the compiler is step-bounded and the evaluator tests the bound before each "
          "step. Table keys are rename/line/closure-number insensitive. Reviewed table lines may carry machine-checked preconditions (e.g. the classified token reaches the parser "
          "unaltered). Decides this structural clause, not termination or the located-error clause. Found F3-F5, F9-F14, F22 (fixed).",
  "note": "Not decided (counted in evidence): variable-index accesses, debug-only overflow checks, RefCell double borrows, "
          "allocation failure, stack depth, panics inside dependencies, general termination. tables/panic_sites.json holds the "
          "reviewed sites (classes environment / constant / invariant / caller-guarded / baseline-unproven); wrong reviews are "
          "possible (three were: F5, F11, F12) and an adversarial re-review is recorded in DESIGN.md.",
  "technique": "MIR abstract interpretation (length domain) + dominance + CHA reachability + reviewed table",
  "design": "3.9",
 },
 "C05": {
  "text": "Decides six structural clauses on every path of the current sources: every std hash-container iteration "
          "(found by type) is consumed order-insensitively (map inserts keyed by a function of the entry's value count as "
          "order-sensitive), sanitised by a sort, unreachable from the compile "
          "entry points, or listed with a reviewed reason; the same lattice for B-trees keyed by tree digests (history "
          "channel through the fresh-name counter; found F1, fixed); inventory of interior-mutable globals; who-may-touch "
          "the counter and the int-mode thread-local; RAII typestate of the int-mode guard; no ambient inputs reachable "
          "from compile entry points; no ordering comparison (cmp / < / sort / partition_point) on a binding- or function-name field "
          "that can hold a generated name (R05.i). A finite set of runs cannot observe these channels (seeds agree, counters start at 0).",
  "note": "Trusts rustc MIR/Freeze, the order-taint classifier (self-tested both ways) and tables/hash_order.json (8 reviewed "
          "lines; the de-inlining hill climb's hash order was a genuine defect, F16, and a reviewed line for the classic symbol "
          "dump was wrong, F21 - both fixed). One known finding (F17: generated names "
          "in the symbol table). Does not decide that emitted code contains no "
          "generated names; ordering by generated names is decided only for the name fields of bindings and functions (R05.i), "
          "not for arbitrary atoms.",
  "technique": "MIR order-taint analysis (type-driven sources, loop/closure effect classification) + typestate + who-may-call + reviewed table",
  "design": "3.1",
 },
 "C18": {
  "text": "Pairing rule read => record decided on every path of the preprocessor's MIR (each read_new_file call is "
          "self-recording or dominated in every caller by a recorder on the same include description; recorder skip "
          "edges classified), who-may-read, first-match shape of the resolver loop, and the listing's only filter "
          "being the `*` pseudo-file predicate, recorder and consumer resolving a name through the same reader, every success "
          "return of the listing passing through the frontend, and the "
          "classic reader's search list being built in search-path order; no locally created include vector is lent to a recorder and "
          "then dropped (R18.e); set_search_paths stores the list it is given without filtering or reordering (R18.a.store). "
          "the include list of a program nested in an expression is copied into the enclosing one (R18.f). "
          "Found F2 (embed-file unlisted) and F28 (includes of nested mod forms unlisted), each repaired by a fix: commit.",
  "note": "Scope: the modern preprocessor (all dialect sigils and the listing itself) plus the order of the classic search list. "
          "The classic `_read` operator's own resolution loop is CLVM data (stage_2 reader is Rust: first-match walk not decided). Trusts rustc MIR construction; value flow is local-level.",
  "technique": "MIR pairing/dominance rules + value flow + who-may-call",
  "design": "3.4",
 },
 "C19": {
  "text": "Decides on every path of the current sources the shape that makes replacement atomic: output path reaches "
          "only the mtime test / gentle_overwrite / return value; only reviewed functions call filesystem-mutating "
          "primitives; the writer creates its temp file in the output's directory, checks write_all, then persists; "
          "the equal-content branch cannot fail and every other branch returns the writer's Result. Covers all crash "
          "points and interleavings at once because the only operation changing what the path names is rename(2).",
  "note": "Trusts POSIX rename(2) atomicity on one filesystem, tempfile's O_EXCL naming, rustc MIR construction and "
          "tables/fs_writers.json. Durability is out of scope. Value flow is local-level and over-approximate.",
  "technique": "MIR path rules (must-pass-through/dominance, ?-polarity) + value flow + who-may-call table",
  "design": "3.2",
 },
 "C20": {
  "text": "Exhaustive static comparison of every operator table harvested from the current sources "
          "(HIR literal arrays, MIR dispatch of both dialects, version selectors, step-machine and helper "
          "constants), any further literal table pairing operator names with opcodes, and the per-call choice of the base dialect "
          "in the `run` tool's evaluator: decides the whole property for the finite tables as written, on every path.",
  "note": "Trusts rustc HIR/MIR construction, clvmr 0.16.2 (offline registry) as the consensus evaluator, and the "
          "reviewed keyword->implementation map tables/c20_kw_impl.json. Operator semantics/arity not decided.",
  "technique": "HIR/MIR table extraction (rustc_private driver) + exhaustive cross-table comparison",
  "design": "3.3",
 },
}


def main():
    checks = []
    for pid, c in sorted(CHECKS.items()):
        checks.append({
            "property_id": pid,
            "quick_cmd": "./check %s --tier quick" % pid,
            "thorough_cmd": "./check %s --tier thorough" % pid,
            "evidence_file": "/verif/evidence/%s.json" % pid,
            "replay_cmd_template": "./check %s --replay {path}" % pid,
            "engine": "mirfacts+rules",
            "level_claimed": {"category": "other", "text": c["text"], "design_ref": "DESIGN.md " + c["design"]},
            "level_note": c["note"],
            "technique": c["technique"],
        })
    na = []
    for pid in ["C%02d" % i for i in range(1, 21)]:
        if pid in CHECKS:
            continue
        na.append({"property_id": pid, "reason": NA.get(pid, PENDING)})
    m = {
        "version": 1,
        "setup_cmd": "./check setup",
        "hooks": {
            "guard": "chia_network_clvm_tools_rs_verif",
            "enable": "none needed: the checks are static analyses of the unmodified sources; no hook code exists in /repo",
            "baseline_off_cmd": "cd /repo && RUSTUP_TOOLCHAIN=stable-x86_64-unknown-linux-gnu cargo nextest run --workspace --no-fail-fast --test-threads 8 --offline",
            "source_commits": [],
            "add_only": True,
        },
        "engines": [
            {"name": "mirfacts", "path": "/verif/mirfacts", "serves_properties": sorted(CHECKS),
             "kind_free_text": "rustc_private driver (nightly) run as RUSTC_WRAPPER under cargo check on /repo's working tree; "
                               "dumps MIR with resolved callees, statics, ADTs, impls and HIR literal tables as JSON facts"},
            {"name": "rules", "path": "/verif/rules", "serves_properties": sorted(CHECKS),
             "kind_free_text": "Python rule engine over the facts: CFG/dominance/must-pass-through, value flow, "
                               "table extraction, reviewed tables, known findings, evidence"},
        ],
        "checks": checks,
        "not_applicable": na,
        "notes": "All checks decide their verdict from /repo's current source without executing it. "
                 "Exit 2 = tool breakage (e.g. /repo does not compile). Self-test corpus: ./check selftest <ID>.",
    }
    json.dump(m, open(os.path.join(VERIF, "MANIFEST.json"), "w"), indent=1)


if __name__ == "__main__":
    main()
