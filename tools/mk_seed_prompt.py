#!/usr/bin/env python3
"""usage: mk_seed_prompt.py <PROP_ID> <worktree> [n]  — print the seeding prompt for a fresh sub-agent (property text only)."""
import json, os, sys
pid, wt = sys.argv[1], sys.argv[2]
n = int(sys.argv[3]) if len(sys.argv) > 3 else 2
props = {json.loads(l)['id']: json.loads(l) for l in open('/verif/properties.jsonl')}
p = props[pid]
explored = sorted(d.split('-', 1)[1].replace('-', ' ') for d in os.listdir('/verif/seeded') if d.lower().startswith(pid.lower()))
tmpl = open('/verif/notes/prompts/seed_prompt_example_c13.txt').read()
head, rest = tmpl.split('The property under study:\n-----\n', 1)
_, tail = rest.split('\n-----\n\nYOUR TASK', 1)
head = head.replace('/tmp/wt4-c13', wt)
tail = ('\n-----\n\nYOUR TASK' + tail).replace('/tmp/wt4-c13', wt).replace('produce 2 DIFFERENT', f'produce {n} DIFFERENT').replace('(k = 1..2)', f'(k = 1..{n})')
i = tail.index('IMPORTANT - these ideas')
j = tail.index('\n\nBe rigorous')
if explored:
    imp = ('IMPORTANT - these ideas have ALREADY been explored by someone else; do NOT use them or close variants, find genuinely '
           'different mechanisms and code sites: ' + '; '.join(explored) + '.')
else:
    imp = ''
tail = tail[:i] + imp + tail[j:]
text = f"{pid} — {p['title']}\n\n{p['statement']}\n\nQuantifier: {p['quantifier']['text']}\n\nWhy the test suite cannot settle it: {p['why_tests_cant']}\n"
print(head + 'The property under study:\n-----\n' + text + tail)
