#!/bin/bash
# usage: try_all.sh <diff> [IDs...] — run every check (quick tier) against a scratch copy of /repo with the diff applied;
# prints one line per check and the violations.  Used to test behaviour-preserving refactors (must stay silent).
d=$(mktemp -d /tmp/verif-try-XXXX)
rsync -a --exclude target --exclude .git --exclude tmp /repo/ $d/
(cd $d && patch -p1 -s -i "$1") || { rm -rf $d; echo "PATCH FAILED $1"; exit 3; }
e=$(mktemp -d /tmp/verif-evid-XXXX)
ids="${@:2}"; [ -z "$ids" ] && ids="C05 C06 C07 C08 C10 C11 C12 C13 C14 C18 C19 C20"
rc_all=0
for id in $ids; do
  out=$(VERIF_REPO=$d VERIF_EVID=$e /verif/check $id 2>&1); rc=$?
  echo "$id rc=$rc $(echo "$out" | grep -c '^VIOLATION')"
  if [ $rc -ne 0 ]; then rc_all=1; echo "$out" | grep -E "rule=|^      |TOOL ERROR|Traceback|Error" | head -12; fi
done
rm -rf $d $e
exit $rc_all
