#!/bin/bash
# usage: mkmut.sh <ID> <name> "<expect>" <command...>   (command runs inside a scratch copy of /repo)
set -e
id=$1; name=$2; expect=$3; shift 3
rm -rf /tmp/mut && mkdir -p /tmp/mut && rsync -a --exclude target --exclude .git --exclude tmp /repo/ /tmp/mut/
(cd /tmp/mut && "$@")
mkdir -p /verif/selftest/$id
(cd / && diff -ruN -x target -x .git -x tmp repo/src tmp/mut/src | sed 's#^--- repo/#--- a/#; s#^+++ tmp/mut/#+++ b/#' > /verif/selftest/$id/$name.diff) || true
echo "$expect" > /verif/selftest/$id/$name.expect
rm -rf /tmp/mut
test -s /verif/selftest/$id/$name.diff || { echo "EMPTY DIFF for $name"; exit 1; }
