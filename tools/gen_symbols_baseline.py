#!/usr/bin/env python3
"""Writes tables/symbols_baseline.json: the item paths (functions, consts, statics, literal tables) of the current tree,
used only to recognise items that were MOVED later (rules/mir.py _normalise_moves).  Regenerate after a /repo fix that adds
or renames items."""
import glob, json, os, sys
sys.path.insert(0, os.path.join(os.path.dirname(os.path.dirname(os.path.abspath(__file__))), "rules"))
os.environ["VERIF_NO_MOVE_NORMALISATION"] = "1"
import facts
out = {}
sigs = {}
adts = {}
import mir
for cfg in ("default", "ext"):
    main, clvmr, info = facts.produce(cfg)
    d = json.load(open(main))
    names = set(out.get(d["crate"], []))
    names |= {f["path"] for f in d["functions"] if f.get("kind") != "Closure"}
    names |= {c["path"] for c in d.get("consts", [])}
    names |= {s["path"] for s in d.get("statics", []) if "path" in s}
    names |= set(d.get("hir", {}).keys())
    out[d["crate"]] = sorted(names)
    sg = sigs.setdefault(d["crate"], {})
    sg.update(mir.item_signatures(d))
    adts.setdefault(d["crate"], {}).update(mir.adt_shapes(d))
p = os.path.join(os.path.dirname(os.path.dirname(os.path.abspath(__file__))), "tables", "symbols_baseline.json")
out["__sigs__"] = sigs
out["__adts__"] = adts
json.dump(out, open(p, "w"), indent=0, sort_keys=True)
print({k: len(v) for k, v in out.items()})
