#!/bin/bash
# usage: confirm_seed.sh <worktree> <k> : independently confirm an agent-made seeded change
wt=$1; k=$2
export RUSTUP_TOOLCHAIN=stable-x86_64-unknown-linux-gnu CARGO_NET_OFFLINE=true
cd $wt || exit 9
git checkout -q -- . ; git clean -fdq -e SEED -e target >/dev/null 2>&1
out=$wt/SEED/$k/CONFIRM.txt; : > $out
echo "== apply patch" | tee -a $out
git apply SEED/$k/patch.diff || { echo "PATCH DOES NOT APPLY" | tee -a $out; exit 1; }
echo "== test suite with patch" | tee -a $out
cargo nextest run --workspace --no-fail-fast --test-threads 8 --offline 2>&1 | grep -E "Summary|FAIL|error\[" | head -5 | tee -a $out
echo "== demo with patch (expect non-zero)" | tee -a $out
bash SEED/$k/demo/run.sh $wt > SEED/$k/demo_patched.log 2>&1; echo "exit=$?" | tee -a $out
git checkout -q -- . ; git clean -fdq -e SEED -e target >/dev/null 2>&1
echo "== demo without patch (expect 0)" | tee -a $out
bash SEED/$k/demo/run.sh $wt > SEED/$k/demo_clean.log 2>&1; echo "exit=$?" | tee -a $out
git checkout -q -- . ; git clean -fdq -e SEED -e target >/dev/null 2>&1
git status --short | grep -v SEED | head -5 | tee -a $out
