#!/bin/bash
# usage: save_seed.sh <worktree> <k> <seed-name> <property> "<selftest expect>" "<needs>"
wt=$1; k=$2; name=$3; prop=$4; expect=$5; needs=$6
dst=/verif/seeded/$name
rm -rf $dst; mkdir -p $dst
cp -r $wt/SEED/$k/demo $dst/demo
cp $wt/SEED/$k/README.md $dst/README.agent.md
cp $wt/SEED/$k/CONFIRM.txt $dst/CONFIRM.txt 2>/dev/null
rebased=false
if git -C /repo apply --check $wt/SEED/$k/patch.diff 2>/dev/null; then
  cp $wt/SEED/$k/patch.diff $dst/patch.diff
else
  d=$(mktemp -d /tmp/verif-rebase-XXXX); rsync -a --exclude target --exclude .git --exclude tmp /repo/ $d/
  (cd $d && patch -p1 -s --no-backup-if-mismatch -i $wt/SEED/$k/patch.diff) || { echo "CANNOT REBASE $name"; rm -rf $d; exit 1; }
  (cd / && diff -ruN -x target -x .git -x tmp repo/src ${d#/}/src | sed "s#^--- repo/#--- a/#; s#^+++ ${d#/}/#+++ b/#" > $dst/patch.diff)
  rm -rf $d; rebased=true
  git -C /repo apply --check $dst/patch.diff || { echo "REBASED PATCH DOES NOT APPLY $name"; exit 1; }
fi
python3 - "$dst" "$prop" "$expect" "$needs" "$rebased" <<'PY'
import json,sys
dst,prop,expect,needs,rebased=sys.argv[1:6]
conf=open(dst+'/CONFIRM.txt').read() if __import__('os').path.exists(dst+'/CONFIRM.txt') else ''
json.dump({"property":prop,"origin":"independent sub-agent given only the property text and its own scratch worktree",
 "needs_to_manifest":needs,"selftest_expect":expect,"rebased_onto_fix_commits":rebased=="true",
 "confirmed":{"procedure":"tools/confirm_seed.sh: git apply patch in the agent's worktree; cargo nextest run --workspace (614 tests); demo/run.sh with patch (expect non-zero) and without (expect 0)","log":conf}},
 open(dst+'/meta.json','w'),indent=1)
PY
echo saved $dst
