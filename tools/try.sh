#!/bin/bash
# usage: try.sh <diff> <ID> [extra python]  — run a check against a scratch copy with the diff applied
d=$(mktemp -d /tmp/verif-try-XXXX)
rsync -a --exclude target --exclude .git --exclude tmp /repo/ $d/
(cd $d && patch -p1 -s -i "$1") || { rm -rf $d; exit 3; }
e=$(mktemp -d /tmp/verif-evid-XXXX)
VERIF_REPO=$d VERIF_EVID=$e /verif/check $2 ${@:3}
echo "scratch=$d evid=$e (remove when done)"
