use chialisp::classic::clvm::__type_compatibility__::{Bytes, BytesFromType, Stream};
use chialisp::classic::clvm::serialize::{sexp_from_stream, SimpleCreateCLVMObject};
use clvmr::allocator::Allocator;
use clvmr::serde::node_from_bytes;

fn local(bytes: &[u8]) -> Option<Vec<u8>> {
    let mut a = Allocator::new();
    let mut s = Stream::new(Some(Bytes::new(Some(BytesFromType::Raw(bytes.to_vec())))));
    sexp_from_stream(&mut a, &mut s, Box::new(SimpleCreateCLVMObject {}))
        .ok()
        .map(|r| a.atom(r.1).as_ref().to_vec())
}

fn consensus(bytes: &[u8]) -> Option<Vec<u8>> {
    let mut a = Allocator::new();
    node_from_bytes(&mut a, bytes).ok().map(|n| a.atom(n).as_ref().to_vec())
}

#[test]
fn f24_seven_byte_prefix() {
    for input in [
        vec![0xfe, 0, 0, 0, 0, 0, 1, 0x41],
        vec![0xfc, 0, 0, 0, 0, 1, 0x41],
        vec![0xf8, 0, 0, 0, 1, 0x41],
    ] {
        let (l, c) = (local(&input), consensus(&input));
        eprintln!("{:02x?}: local={:?} consensus={:?}", input, l, c);
        assert!(l.is_none() || l == c, "local decoder returns a value consensus does not");
    }
}
