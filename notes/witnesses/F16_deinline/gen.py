#!/usr/bin/env python3
import random, sys, os, multiprocessing, json
sys.path.insert(0,'/tmp/deinl')
import sim
OPS=['+','*','sha256','concat','logand','logior','-']
class G:
    def __init__(s, rng, maxlets):
        s.r=rng; s.n=0; s.lets=0; s.maxlets=maxlets
    def var(s):
        s.n+=1; return 'v%d'%s.n
    def expr(s, depth, vars, wantlet=0.3):
        r=s.r
        if depth<=0 or r.random()<0.15:
            if r.random()<0.8: return r.choice(vars)
            return str(r.randint(1,20))
        if s.lets<s.maxlets and r.random()<wantlet:
            s.lets+=1
            nb=r.choice([1,1,1,2])
            names=[s.var() for _ in range(nb)]
            binds=' '.join('(%s %s)'%(n,s.expr(depth-1,vars,wantlet*0.7)) for n in names)
            nv=vars+names
            # body uses new vars with multiplicity
            parts=[]
            for n in names:
                parts += [n]*r.choice([1,2,2,3,4])
            extra=r.randint(0,2)
            for _ in range(extra): parts.append(s.expr(depth-1,nv,wantlet))
            r.shuffle(parts)
            # maybe wrap vars in nested let
            if s.lets<s.maxlets and r.random()<0.5:
                inner=s.expr(depth-1,nv,0.9)
                parts.append(inner)
            body='(%s %s)'%(r.choice(OPS),' '.join(parts))
            return '(let (%s) %s)'%(binds,body)
        k=r.choice([2,2,3,4])
        return '(%s %s)'%(r.choice(OPS),' '.join(s.expr(depth-1,vars,wantlet) for _ in range(k)))
def make(seed):
    rng=random.Random(seed)
    g=G(rng, rng.choice([2,3,4,5,6]))
    nf=rng.choice([1,1,2])
    funs=[]
    for i in range(nf):
        body=g.expr(rng.choice([3,4,5]),['a','b'],0.6)
        funs.append('(defun F%d (a b) %s)'%(i,body))
    main='(+ %s)'%' '.join('(F%d a b)'%i for i in range(nf)) if nf>1 else '(F0 a b)'
    return '(mod (a b)\n  (include *standard-cl-23*)\n  %s\n  %s)\n'%('\n  '.join(funs),main)
def work(seed):
    src=make(seed)
    p='/tmp/deinl/gen/p%d.clsp'%seed
    open(p,'w').write(src)
    try:
        blocks,out=sim.dump(p)
    except Exception as e:
        return seed,'err %s'%e
    res=[]
    for b in blocks:
        if not b['names'] or not b['m']: continue
        o=sim.analyze(b)
        if o and len(o)>1:
            res.append((b['names'],o))
    if not res:
        os.unlink(p)
    return seed,res,max([len(b['names']) for b in blocks] or [0])
if __name__=='__main__':
    os.makedirs('/tmp/deinl/gen',exist_ok=True)
    a,b=int(sys.argv[1]),int(sys.argv[2])
    with multiprocessing.Pool(8) as pool:
        hist={}
        for r in pool.imap_unordered(work,range(a,b)):
            if len(r)==3:
                hist[r[2]]=hist.get(r[2],0)+1
                if r[1]: print('HIT',r[0],r[1],flush=True)
            else: print(r)
        print('flippable-count histogram',sorted(hist.items()))
