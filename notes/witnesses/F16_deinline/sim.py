#!/usr/bin/env python3
"""Run debug binary on a file, parse dump (last FLIPPABLE block), simulate greedy for all/random orders.
Prints number of distinct final masks."""
import sys, subprocess, itertools, random, ast, os
def dump(path, incs=()):
    cmd=['/tmp/deinl/run_dbg']
    for i in incs: cmd+=['-i',i]
    cmd.append(path)
    r=subprocess.run(cmd,env=dict(os.environ,DEINLINE_DUMP='1'),capture_output=True,text=True)
    # split into blocks; take the block with the most flippables (main program is last)
    blocks=[]; stack=[]; trees=[]
    for line in r.stderr.splitlines():
        if line.startswith('TREE '):
            fl=ast.literal_eval(line.split('flippable=',1)[1])
            trees.append(fl)
        elif line.startswith('FLIPPABLE '):
            cur={'names':ast.literal_eval(line[len('FLIPPABLE '):]),'trees':trees,'m':{}}
            trees=[]
            blocks.append(cur)
            if len(cur['names'])<=12: stack.append(cur)
        elif line.startswith('MASK ') and stack:
            _,a,b=line.split(); stack[-1]['m'][int(a)]=int(b)
            if len(stack[-1]['m'])==(1<<len(stack[-1]['names'])): stack.pop()
    return blocks, r.stdout
def greedy(block, tree_order, orders):
    names=block['names']; idx={n:i for i,n in enumerate(names)}
    m=block['m']; mask=0; metric=m[0]
    for ti in tree_order:
        order=orders[ti]
        while True:
            start=metric
            for f in order:
                nm=mask^(1<<idx[f])
                if m[nm] < metric and m[nm]>=0:
                    mask=nm; metric=m[nm]
            if start==metric: break
    return mask,metric
def analyze(block, trials=300):
    trees=[t for t in block['trees']]
    if not block['m'] : return None
    outcomes={}
    nt=len(trees)
    total=1
    for t in trees:
        for k in range(2,len(t)+1): total*=k
    for k in range(2,nt+1): total*=k
    if total<=5000:
        for to in itertools.permutations(range(nt)):
            for combo in itertools.product(*[list(itertools.permutations(t)) for t in trees]):
                o=greedy(block,to,combo); outcomes[o]=outcomes.get(o,0)+1
    else:
        for _ in range(trials):
            to=list(range(nt)); random.shuffle(to)
            combo=[random.sample(t,len(t)) for t in trees]
            o=greedy(block,to,combo); outcomes[o]=outcomes.get(o,0)+1
    return outcomes
if __name__=='__main__':
    blocks,out=dump(sys.argv[1],sys.argv[2:])
    for b in blocks:
        if len(b['names'])==0: continue
        print(b['names'],b['trees'],b['m'] if len(b['m'])<=16 else len(b['m']))
        print(analyze(b))
