use std::rc::Rc;
use clvmr::allocator::Allocator;
use crate::classic::clvm_tools::stages::stage_0::{DefaultProgramRunner, TRunProgram};
use crate::compiler::clvm::{convert_to_clvm_rs, convert_from_clvm_rs, parse_and_run};
use crate::compiler::sexp::parse_sexp;
use crate::compiler::srcloc::Srcloc;

fn both(prog: &str, env: &str) -> (String, String) {
    let mut a = Allocator::new();
    let runner = Rc::new(DefaultProgramRunner::new());
    let stepped = match parse_and_run(&mut a, runner.clone(), "*w*", prog, env, Some(10000)) {
        Ok(v) => format!("ok {}", v),
        Err(_) => "fail".to_string(),
    };
    let loc = Srcloc::start("*w*");
    let p = parse_sexp(loc.clone(), prog.bytes()).unwrap()[0].clone();
    let e = parse_sexp(loc.clone(), env.bytes()).unwrap()[0].clone();
    let pn = convert_to_clvm_rs(&mut a, p).unwrap();
    let en = convert_to_clvm_rs(&mut a, e).unwrap();
    let consensus = match runner.run_program(&mut a, pn, en, None) {
        Ok(r) => format!("ok {}", convert_from_clvm_rs(&mut a, loc, r.1).unwrap()),
        Err(_) => "fail".to_string(),
    };
    (stepped, consensus)
}

#[test]
fn f19_redundant_sign_path() {
    for (p, e) in [("(2 (1 . 0xff80) 1)", "(((((((42)))))))"), ("(2 (1 . 0xffff80) 1)", "(((((((42)))))))"), ("(2 (1 . 0xff7f) 1)", "(1 2 3 4 5 6 7 8 9 10 11 12 13 14 15 16 17 18)"), ("(2 (1 . 0x80) 1)", "(((((((42)))))))"), ("(2 (1 . -128) 1)", "(((((((42)))))))"), ("(2 (1 . 0x0080) 1)", "(((((((42)))))))"), ("(2 (1 . 11) 1)", "(1 2 3)")] {
        let (s, c) = both(p, e);
        eprintln!("{p} {e}: stepped={s} consensus={c}");
        assert_eq!(s, c);
    }
}
