use std::rc::Rc;
use clvmr::allocator::Allocator;
use crate::classic::clvm_tools::stages::stage_0::{DefaultProgramRunner, TRunProgram};
use crate::compiler::clvm::{convert_to_clvm_rs, convert_from_clvm_rs, parse_and_run};
use crate::compiler::sexp::parse_sexp;
use crate::compiler::srcloc::Srcloc;

fn both(prog: &str, env: &str) -> (String, String) {
    let mut a = Allocator::new();
    let runner = Rc::new(DefaultProgramRunner::new());
    let stepped = match parse_and_run(&mut a, runner.clone(), "*w*", prog, env, Some(10000)) {
        Ok(v) => format!("ok {}", v),
        Err(_) => "fail".to_string(),
    };
    let loc = Srcloc::start("*w*");
    let p = parse_sexp(loc.clone(), prog.bytes()).unwrap()[0].clone();
    let e = parse_sexp(loc.clone(), env.bytes()).unwrap()[0].clone();
    let pn = convert_to_clvm_rs(&mut a, p).unwrap();
    let en = convert_to_clvm_rs(&mut a, e).unwrap();
    let consensus = match runner.run_program(&mut a, pn, en, None) {
        Ok(r) => format!("ok {}", convert_from_clvm_rs(&mut a, loc, r.1).unwrap()),
        Err(_) => "fail".to_string(),
    };
    (stepped, consensus)
}

#[test]
fn f25_head_forms() {
    for (p, e) in [("((16) 1 2)", "(10 20)"), ("(0x0001 . 5)", "(10 20)"), ("((1) 1 2)", "(10 20)"), ("((5) (7 8))", "(10 20)"), ("(0x0002 (1 . 5) 1)", "(10 20)"), ("(0x01 . 5)", "(10 20)"), ("(0x0080 1)", "(10 20)"), ("(1 . 5)", "(10 20)"), ("(16 (1 . 1) (1 . 2))", "(10 20)")] {
        let (s, c) = both(p, e);
        eprintln!("{p} {e}: stepped={s} consensus={c}");
        if s != c { eprintln!("   ^^^ DIVERGES"); }
    }
}
