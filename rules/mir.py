"""Program model over mirfacts JSON: functions, CFG utilities, call graph,
value flow.  Pure Python, stdlib only."""
import json
import os
import re
from collections import defaultdict, deque


# ----------------------------------------------------------------------------
# places / operands
# ----------------------------------------------------------------------------

def pl_local(pl):
    return pl["l"]


def pl_fields(pl):
    """Field names along the projection (ignoring derefs / downcasts)."""
    return [e["f"] for e in pl["p"] if isinstance(e, dict) and "f" in e]


def pl_str(pl, fn=None):
    s = "_%d" % pl["l"]
    if fn is not None:
        n = fn.locals[pl["l"]].get("n")
        if n:
            s = "%s(%s)" % (s, n)
    for e in pl["p"]:
        if e == "*":
            s = "(*%s)" % s
        elif "f" in e:
            s += "." + e["f"]
        elif "dc" in e:
            s = "(%s as %s)" % (s, e["dc"])
        elif "idx" in e:
            s += "[_%d]" % e["idx"]
        elif "cidx" in e:
            s += "[%s%d of %d]" % ("-" if e["from_end"] else "", e["cidx"], e["min"])
        elif "sub_from" in e:
            s += "[%d..%s%d]" % (e["sub_from"], "-" if e["from_end"] else "", e["sub_to"])
        else:
            s += ".?"
    return s


def op_place(op):
    if op is None:
        return None
    if op["k"] in ("copy", "move"):
        return op["pl"]
    return None


def op_local(op):
    p = op_place(op)
    return p["l"] if p is not None else None


def op_const(op):
    if op is not None and op["k"] == "const":
        return op["c"]
    return None


def op_int(op):
    c = op_const(op)
    if c is not None and "int" in c:
        v = c["int"]
        return int(v)
    return None


def op_str(op, fn=None):
    if op["k"] in ("copy", "move"):
        return ("move " if op["k"] == "move" else "") + pl_str(op["pl"], fn)
    if op["k"] == "const":
        c = op["c"]
        for k in ("int", "bool", "str", "fn", "static", "closure"):
            if k in c:
                return "const %s:%r" % (k, c[k])
        return "const " + c.get("dbg", c.get("ty", "?"))[:60]
    return "?"


def rv_operands(rv):
    """All operands read by an rvalue."""
    k = rv["k"]
    if k == "use":
        return [rv["op"]]
    if k in ("ref", "rawptr", "discr"):
        return [{"k": "copy", "pl": rv["pl"]}]
    if k == "cast":
        return [rv["op"]]
    if k == "bin":
        return [rv["a"], rv["b"]]
    if k == "un":
        return [rv["a"]]
    if k == "repeat":
        return [rv["op"]]
    if k == "agg":
        return list(rv["ops"])
    return []


def rv_str(rv, fn=None):
    k = rv["k"]
    if k == "use":
        return op_str(rv["op"], fn)
    if k == "ref":
        return "&%s%s" % ("mut " if rv.get("mut") else "", pl_str(rv["pl"], fn))
    if k == "rawptr":
        return "&raw " + pl_str(rv["pl"], fn)
    if k == "discr":
        return "discriminant(%s)" % pl_str(rv["pl"], fn)
    if k == "cast":
        return "%s as %s (%s)" % (op_str(rv["op"], fn), rv["ty"], rv["kind"][:30])
    if k == "bin":
        return "%s(%s, %s)" % (rv["op"], op_str(rv["a"], fn), op_str(rv["b"], fn))
    if k == "un":
        return "%s(%s)" % (rv["op"], op_str(rv["a"], fn))
    if k == "agg":
        head = rv["agg"]
        if head == "adt":
            head = "%s::%s" % (rv["adt"], rv["variant"])
        elif head == "closure":
            head = "closure " + rv["closure"]
        return "%s{%s}" % (head, ", ".join(op_str(o, fn) for o in rv["ops"]))
    if k == "tlsref":
        return "tls " + rv["static"]
    if k == "setdiscr":
        return "setdiscr %d" % rv["variant"]
    return rv.get("dbg", k)


# ----------------------------------------------------------------------------
# functions
# ----------------------------------------------------------------------------

class Fn:
    def __init__(self, d, crate):
        self.d = d
        self.crate = crate
        self.path = d["path"]
        self.kind = d["kind"]
        self.file = d["file"]
        self.line = d["line"]
        self.argc = d["argc"]
        self.locals = d["locals"]
        self.blocks = d["blocks"]
        self.root = d.get("root", d["path"])
        self.parent = d.get("parent")
        self.vis = d.get("vis")
        self._succ = None
        self._pred = None
        self._dom = None

    def __repr__(self):
        return "<Fn %s>" % self.path

    # -- CFG ---------------------------------------------------------------
    def term(self, bb):
        return self.blocks[bb]["t"]

    def is_cleanup(self, bb):
        return bool(self.blocks[bb].get("cleanup"))

    def succ_all(self, bb):
        """Successors including unwind edges."""
        t = self.term(bb)
        out = list(self.succ(bb))
        u = t.get("unwind")
        if u is not None:
            out.append(u)
        return out

    def succ(self, bb):
        """Normal (non-unwind) successors."""
        if self._succ is None:
            self._succ = [self._succ_of(i) for i in range(len(self.blocks))]
        return self._succ[bb]

    def _succ_of(self, bb):
        t = self.term(bb)
        k = t["k"]
        if k == "goto":
            return [t["target"]]
        if k == "switch":
            out = []
            for v, b in t["arms"]:
                if b not in out:
                    out.append(b)
            if t["otherwise"] not in out:
                out.append(t["otherwise"])
            return out
        if k in ("call", "drop", "assert"):
            return [t["target"]] if t.get("target") is not None else []
        if k == "other":
            return list(t.get("succ", []))
        return []

    def preds(self, bb):
        if self._pred is None:
            self._pred = [[] for _ in self.blocks]
            for i in range(len(self.blocks)):
                for s in self.succ(i):
                    self._pred[s].append(i)
        return self._pred[bb]

    def reachable(self, start=0, avoid=(), avoid_edges=()):
        """Blocks reachable from `start` along normal edges without entering
        any block in `avoid` (start itself is entered even if in avoid only
        when it is not in avoid) and without using any (src,dst) in
        avoid_edges."""
        avoid = set(avoid)
        avoid_edges = set(avoid_edges)
        seen = set()
        if start in avoid:
            return seen
        dq = deque([start])
        seen.add(start)
        while dq:
            b = dq.popleft()
            for s in self.succ(b):
                if s in seen or s in avoid or (b, s) in avoid_edges:
                    continue
                seen.add(s)
                dq.append(s)
        return seen

    def reachable_from_set(self, starts, avoid=(), avoid_edges=()):
        out = set()
        for s in starts:
            if s not in out:
                out |= self.reachable(s, avoid, avoid_edges)
        return out

    def return_blocks(self):
        return [i for i, b in enumerate(self.blocks)
                if b["t"]["k"] == "return" and not b.get("cleanup")]

    def dominators(self):
        """dom[b] = set of blocks dominating b (normal edges, from entry)."""
        if self._dom is not None:
            return self._dom
        n = len(self.blocks)
        reach = self.reachable(0)
        order = [b for b in range(n) if b in reach]
        dom = {b: set(order) for b in order}
        dom[0] = {0}
        changed = True
        while changed:
            changed = False
            for b in order:
                if b == 0:
                    continue
                ps = [p for p in self.preds(b) if p in reach]
                new = None
                for p in ps:
                    new = set(dom[p]) if new is None else (new & dom[p])
                new = (new or set()) | {b}
                if new != dom[b]:
                    dom[b] = new
                    changed = True
        self._dom = dom
        return dom

    def dominates(self, a, b):
        d = self.dominators()
        return b in d and a in d[b]

    # -- events ------------------------------------------------------------
    def calls(self, include_cleanup=False):
        for i, b in enumerate(self.blocks):
            if b["t"]["k"] == "call" and (include_cleanup or not b.get("cleanup")):
                yield i, b["t"]

    def stmts(self, include_cleanup=False):
        for i, b in enumerate(self.blocks):
            if b.get("cleanup") and not include_cleanup:
                continue
            for j, s in enumerate(b["s"]):
                yield i, j, s

    def local_name(self, l):
        return self.locals[l].get("n")

    def local_ty(self, l):
        return self.locals[l]["ty"]

    def locals_named(self, name):
        return [i for i, l in enumerate(self.locals) if l.get("n") == name]

    def loc(self, bb):
        t = self.term(bb)
        return "%s:%s" % (t.get("file", self.file), t.get("line", self.line))

    # -- pretty printing -----------------------------------------------------
    def dump(self):
        out = ["fn %s  [%s:%d] argc=%d" % (self.path, self.file, self.line, self.argc)]
        for i, l in enumerate(self.locals):
            out.append("    let _%d: %s%s" % (i, l["ty"], ("  // " + l["n"]) if l.get("n") else ""))
        for i, b in enumerate(self.blocks):
            out.append("  bb%d%s:" % (i, " (cleanup)" if b.get("cleanup") else ""))
            for s in b["s"]:
                out.append("      %s = %s" % (pl_str(s["pl"], self), rv_str(s["rv"], self)))
            out.append("      " + self.term_str(i))
        return "\n".join(out)

    def term_str(self, bb):
        t = self.term(bb)
        k = t["k"]
        if k == "call":
            name = callee_of(t) or ("<indirect %s>" % t.get("fn_ty"))
            s = "%s = %s(%s) -> %s" % (
                pl_str(t["dest"], self), name,
                ", ".join(op_str(a, self) for a in t["args"]),
                "bb%s" % t["target"] if t.get("target") is not None else "!")
            if t.get("virtual"):
                s += " [virtual]"
            if t.get("unwind") is not None:
                s += " unwind bb%d" % t["unwind"]
            return s + "   // line %s" % t.get("line")
        if k == "switch":
            return "switchInt(%s) [%s, otherwise: bb%d]" % (
                op_str(t["discr"], self),
                ", ".join("%d: bb%d" % (v, b) for v, b in t["arms"]), t["otherwise"])
        if k == "goto":
            return "goto bb%d" % t["target"]
        if k == "drop":
            return "drop(%s) -> bb%d" % (pl_str(t["pl"], self), t["target"])
        if k == "assert":
            return "assert(%s == %s, %s) -> bb%d" % (
                op_str(t["cond"], self), t["expected"], t["msg"], t["target"])
        return k


def callee_of(t):
    """Resolved callee path of a call terminator (declared path for virtual
    or unresolved calls, None for indirect calls)."""
    if t.get("callee") is None:
        return None
    if t.get("target_fn") and not t.get("virtual"):
        return t["target_fn"]
    return t["callee"]


def declared_callee(t):
    return t.get("callee")


# ----------------------------------------------------------------------------
# program
# ----------------------------------------------------------------------------

class Program:
    def __init__(self):
        self.fns = {}
        self.statics = []
        self.consts = {}
        self.adts = {}
        self.impls = []
        self.hir = {}
        self.crates = []
        self._callers = None
        self._trait_impls = None

    def add(self, doc, crate_prefix=None, strip_prefix=None):
        """crate_prefix: prepend `<crate>::` to local paths (dependency facts
        seen from the main crate). strip_prefix: remove `<crate>::` from paths
        (bin facts referring to the lib)."""
        if strip_prefix:
            doc = _rewrite_paths(doc, crate_prefix, strip_prefix)
        crate = doc.get("crate")
        self.crates.append(crate)
        for f in doc["functions"]:
            fn = Fn(f, crate)
            key = fn.path
            if f.get("bin"):
                key = "bin:%s::%s" % (f["bin"], fn.path)
                fn.path = key
                if "root" in f:
                    fn.root = "bin:%s::%s" % (f["bin"], f["root"])
                else:
                    fn.root = key
            self.fns[key] = fn
        self.statics.extend(doc.get("statics", []))
        for c in doc.get("consts", []):
            self.consts[c["path"]] = c
        for a in doc.get("adts", []):
            self.adts[a["path"]] = a
        self.impls.extend(doc.get("impls", []))
        self.hir.update(doc.get("hir", {}))
        self._callers = None
        self._trait_impls = None

    def fn(self, path):
        return self.fns.get(path)

    def closures_of(self, root):
        return [f for f in self.fns.values() if f.root == root and f.path != root]

    def family(self, root):
        """The function and all closures nested in it."""
        out = []
        if root in self.fns:
            out.append(self.fns[root])
        out.extend(sorted(self.closures_of(root), key=lambda f: f.path))
        return out

    # -- call graph ----------------------------------------------------------
    def trait_impls(self):
        """trait method path -> [impl method paths] over local impls."""
        if self._trait_impls is None:
            m = defaultdict(list)
            for im in self.impls:
                for meth in im.get("methods", []):
                    if "trait_fn" in meth:
                        m[meth["trait_fn"]].append(meth["impl_fn"])
            self._trait_impls = m
        return self._trait_impls

    def call_targets(self, t):
        """Possible callee function paths for a call terminator (CHA for
        virtual/unresolved trait calls)."""
        c = callee_of(t)
        if c is None:
            return []
        out = [c]
        if t.get("virtual") or (t.get("target_fn") is None) or c == t.get("callee"):
            impls = self.trait_impls().get(t["callee"], [])
            for i in impls:
                if i not in out:
                    out.append(i)
        return out

    def edges_from(self, fn):
        """Call-graph successors of fn: callees, closures created, fn items
        referenced (reified)."""
        out = set()
        for bb, t in fn.calls(include_cleanup=False):
            for c in self.call_targets(t):
                out.add(c)
            for a in t["args"]:
                c = op_const(a)
                if c is not None:
                    if "fn" in c:
                        out.add(c.get("fn_target", c["fn"]))
                    if "closure" in c:
                        out.add(c["closure"])
        for _, _, s in fn.stmts():
            rv = s["rv"]
            if rv["k"] == "agg" and rv.get("agg") == "closure":
                out.add(rv["closure"])
            for o in rv_operands(rv):
                c = op_const(o)
                if c is not None:
                    if "fn" in c:
                        out.add(c.get("fn_target", c["fn"]))
                    if "closure" in c:
                        out.add(c["closure"])
        return out

    def external_trait_impl_methods(self):
        """Methods of local impls of traits defined in other crates (Dialect, Iterator, Drop, Display, ...):
        external code calls these back, which the call graph of the analysed crate cannot see."""
        local_tops = {p.split("::")[0] for p in self.fns if not p.startswith("<") and "::" in p}
        out = []
        for im in self.impls:
            tr = im.get("trait")
            if not tr or tr.split("::")[0] in local_tops:
                continue
            for meth in im.get("methods", []):
                out.append(meth["impl_fn"])
        return out

    def reachable_fns(self, roots, callbacks=False):
        """Functions reachable in the call graph.  With callbacks=True the methods of local impls of
        external traits count as reachable as soon as anything is (sound for call-backs from dependencies)."""
        seen = set()
        dq = deque()
        if callbacks:
            roots = list(roots) + self.external_trait_impl_methods()
        for r in roots:
            if r in self.fns and r not in seen:
                seen.add(r)
                dq.append(r)
        while dq:
            p = dq.popleft()
            for c in self.edges_from(self.fns[p]):
                if c in self.fns and c not in seen:
                    seen.add(c)
                    dq.append(c)
        return seen

    def callers(self):
        if self._callers is None:
            m = defaultdict(list)
            for f in self.fns.values():
                for bb, t in f.calls():
                    for c in self.call_targets(t):
                        m[c].append((f.path, bb))
            self._callers = m
        return self._callers

    def call_sites(self, pred, fns=None):
        """All (fn, bb, term) whose resolved or declared callee satisfies pred."""
        out = []
        for f in (fns if fns is not None else self.fns.values()):
            for bb, t in f.calls():
                c = callee_of(t)
                if c is None:
                    continue
                if pred(c) or (t.get("callee") and t["callee"] != c and pred(t["callee"])):
                    out.append((f, bb, t))
        return out


def _rewrite_paths(doc, crate_prefix, strip_prefix):
    """Bin facts refer to the library as `chialisp::...`; strip that prefix so
    the paths match the library's own facts.  (Dependency facts are kept as a
    separate Program instead of being re-prefixed.)"""
    pre = strip_prefix + "::"

    def walk(x):
        if isinstance(x, dict):
            return {k: walk(v) for k, v in x.items()}
        if isinstance(x, list):
            return [walk(v) for v in x]
        if isinstance(x, str) and pre in x:
            return re.sub(r"(?<![\w:])" + re.escape(pre), "", x)
        return x
    return walk(doc)


BASELINE = os.path.join(os.path.dirname(os.path.dirname(os.path.abspath(__file__))), "tables", "symbols_baseline.json")


def _short(path):
    """Name of an item without its module path: `name`, or `Type::name` for methods (trait impls: the method name)."""
    p = path
    if p.startswith("<") and ">::" in p:
        return p.rsplit(">::", 1)[1]
    segs = re.sub(r"<[^<>]*>", "", p).split("::")
    if len(segs) >= 2 and segs[-2][:1].isupper():
        return segs[-2] + "::" + segs[-1]
    return segs[-1]


def item_signatures(doc):
    """path -> 'parent|kind|types': what identifies an item apart from its own name (used to recognise renames)."""
    out = {}
    for f in doc.get("functions", []):
        if f.get("kind") == "Closure":
            continue
        tys = [l.get("ty", "?") for l in f.get("locals", [])[: f.get("argc", 0) + 1]]
        out[f["path"]] = "%s|%s|%s" % (f.get("parent"), f.get("kind"), " , ".join(tys))
    for c in doc.get("consts", []):
        out[c["path"]] = "%s|const|%s" % (c["path"].rsplit("::", 1)[0], c.get("ty"))
    return out


def _normalise_moves(doc):
    """Items that were merely MOVED (into another module, a new file, an impl or a private trait) get their baseline path
    back, so that rules and reviewed table lines keyed by path are indifferent to where an item lives.  An item counts as
    moved when its baseline path is gone and exactly one new item of the same short name has appeared."""
    if os.environ.get("VERIF_NO_MOVE_NORMALISATION") or not os.path.exists(BASELINE):
        return doc, {}
    base = json.load(open(BASELINE))
    crate = doc.get("crate")
    bset = set(base.get(crate, []))
    if not bset:
        return doc, {}
    cur = set()
    for f in doc.get("functions", []):
        if f.get("kind") != "Closure":
            cur.add(f["path"])
    for c in doc.get("consts", []):
        cur.add(c["path"])
    for st in doc.get("statics", []):
        if "path" in st:
            cur.add(st["path"])
    cur |= set(doc.get("hir", {}).keys())
    missing = bset - cur
    new = cur - bset
    by_short = {}
    for n in new:
        by_short.setdefault(_short(n), []).append(n)
    mapping = {}
    for m in missing:
        c = by_short.get(_short(m), [])
        others_missing = [x for x in missing if _short(x) == _short(m)]
        if len(c) == 1 and len(others_missing) == 1:
            mapping[c[0]] = m
    # RENAMED items: the baseline item is gone and exactly one new item with the same parent, kind and signature (argument
    # and return types) has appeared - and no other vanished item has that signature.  Renaming a function is routine; the
    # rules keep addressing it by the name it had when they were written.
    bsigs = base.get("__sigs__", {}).get(crate, {})
    if bsigs:
        csigs = item_signatures(doc)
        rest_missing = [m for m in missing if m not in mapping.values() and m in bsigs]
        rest_new = [n for n in new if n not in mapping and n in csigs]
        by_sig_new = {}
        for n in rest_new:
            by_sig_new.setdefault(csigs[n], []).append(n)
        by_sig_missing = {}
        for m in rest_missing:
            by_sig_missing.setdefault(bsigs[m], []).append(m)
        for sg, ms in by_sig_missing.items():
            ns = by_sig_new.get(sg, [])
            if len(ms) == 1 and len(ns) == 1:
                mapping[ns[0]] = ms[0]
    if not mapping:
        return _normalise_fields(doc, base, crate), {}
    keys = sorted(mapping, key=len, reverse=True)
    pat = re.compile("|".join(re.escape(k) for k in keys))

    def fix(sv):
        if not any(k in sv for k in keys):
            return sv
        return pat.sub(lambda mm: mapping[mm.group(0)] if (mm.end() == len(sv) or not (sv[mm.end()].isalnum() or sv[mm.end()] == "_")) else mm.group(0), sv)

    def walk(x):
        if isinstance(x, dict):
            return {(fix(k) if isinstance(k, str) else k): walk(v) for k, v in x.items()}
        if isinstance(x, list):
            return [walk(v) for v in x]
        if isinstance(x, str):
            return fix(x)
        return x
    return _normalise_fields(walk(doc), base, crate), mapping


def adt_shapes(doc):
    """ADT path -> [[variant name, [[field name, field type], ..]], ..] (own path written as Self)."""
    out = {}
    for a in doc.get("adts", []):
        me = a["path"]
        out[me] = [[v.get("name"), [[f.get("name"), (f.get("ty") or "").replace(me, "Self")] for f in v.get("fields", [])]]
                   for v in a.get("variants", [])]
    return out


STD_VARIANTS = {"Some", "None", "Ok", "Err", "Continue", "Break", "Less", "Equal", "Greater", "Borrowed", "Owned"}


def _normalise_fields(doc, base, crate):
    """RENAMED fields and enum variants get their baseline names back.  A field counts as renamed when its ADT still has
    the same variants with the same number of fields of the same types in the same order and only names differ; a variant
    when it keeps its position and fields.  Names are rewritten in place projections ({"f","of"} / {"dc"}), aggregate
    variant names and the ADT table."""
    bshapes = base.get("__adts__", {}).get(crate, {})
    if not bshapes:
        return doc
    cshapes = adt_shapes(doc)
    kinds = {a["path"]: a.get("kind") for a in doc.get("adts", [])}
    fmap = {}     # (owner string, new field name) -> old name
    vmap = {}     # (adt path, new variant name) -> old name
    all_variant_names = {}
    for pth, vs in cshapes.items():
        for v in vs:
            all_variant_names.setdefault(v[0], set()).add(pth)
    for pth, bvs in bshapes.items():
        cvs = cshapes.get(pth)
        if cvs is None or len(cvs) != len(bvs):
            continue
        is_enum = kinds.get(pth) == "Enum"
        for (bn, bfs), (cn, cfs) in zip(bvs, cvs):
            if [t for _, t in bfs] != [t for _, t in cfs]:
                continue
            if bn != cn:
                # a variant rename: only when unambiguous across the crate and not a std spelling
                if cn in STD_VARIANTS or all_variant_names.get(cn, set()) != {pth} or any(v[0] == bn for v in cvs):
                    continue
                vmap[(pth, cn)] = bn
            owner_new = "%s::%s" % (pth, cn) if is_enum else pth
            cur_names = [n for n, _ in cfs]
            for (bf, _), (cf, _) in zip(bfs, cfs):
                if bf != cf and bf not in cur_names:
                    fmap[(owner_new, cf)] = bf
    if not fmap and not vmap:
        return doc
    dcmap = {new: old for (_, new), old in vmap.items()}
    ofmap = {"%s::%s" % (p_, new): "%s::%s" % (p_, old) for (p_, new), old in vmap.items()}

    def walk(x):
        if isinstance(x, dict):
            if "f" in x and "of" in x and len(x) == 2:
                f_, of_ = x["f"], x["of"]
                f_ = fmap.get((of_, f_), f_)
                return {"f": f_, "of": ofmap.get(of_, of_)}
            if "dc" in x and len(x) == 1:
                return {"dc": dcmap.get(x["dc"], x["dc"])}
            out = {k: walk(v) for k, v in x.items()}
            if vmap and isinstance(out.get("variant"), str) and (out.get("adt"), out["variant"]) in vmap:
                out["variant"] = vmap[(out["adt"], out["variant"])]
            return out
        if isinstance(x, list):
            return [walk(v) for v in x]
        return x
    doc = dict(doc)
    doc["functions"] = walk(doc.get("functions", []))
    adts = []
    for a in doc.get("adts", []):
        a = json.loads(json.dumps(a))
        is_enum = a.get("kind") == "Enum"
        for v in a.get("variants", []):
            owner_new = "%s::%s" % (a["path"], v.get("name")) if is_enum else a["path"]
            for f in v.get("fields", []):
                f["name"] = fmap.get((owner_new, f.get("name")), f.get("name"))
            v["name"] = vmap.get((a["path"], v.get("name")), v.get("name"))
        adts.append(a)
    doc["adts"] = adts
    return doc


# Named one-line wrappers around an external routine: a direct call of the wrapped routine is the same operation spelled
# without the wrapper (`u8_from_number(i.clone())` == `i.to_signed_bytes_be()`).  Rules that name the wrapper as "the
# encoder" would otherwise report the direct spelling as a second, unchecked encoding.  The wrapper is verified to be
# trivial on every run; if it stops being trivial nothing is rewritten.
CANONICAL_WRAPPERS = ("util::u8_from_number",)


def _canonicalise_wrappers(p):
    for w in CANONICAL_WRAPPERS:
        g = p.fns.get(w)
        if g is None or g.argc != 1:
            continue
        calls = [t for _, t in g.calls()]
        if len(calls) != 1 or calls[0].get("callee_local") or calls[0].get("target_local"):
            continue
        t = calls[0]
        arg = t["args"][0] if len(t["args"]) == 1 else None
        ap = op_place(arg) if arg else None
        if ap is None:
            continue
        # the argument is the parameter (or a borrow of it) and the result is returned as is
        srcs = {ap["l"]}
        for _, _, st in g.stmts():
            if st["pl"]["l"] in srcs and not st["pl"]["p"] and st["rv"]["k"] in ("ref", "use"):
                for o in rv_operands(st["rv"]):
                    pp = op_place(o)
                    if pp is not None:
                        srcs.add(pp["l"])
        if 1 not in srcs or t["dest"]["l"] != 0 or t["dest"]["p"]:
            continue
        wrapped = callee_of(t)
        if not wrapped:
            continue
        n = 0
        for f in p.fns.values():
            if f.path == w:
                continue
            for _, t2 in f.calls(include_cleanup=True):
                if callee_of(t2) == wrapped and len(t2["args"]) == 1:
                    t2["canonicalised_from"] = wrapped
                    t2["callee"] = w
                    t2["target_fn"] = w
                    t2["callee_local"] = True
                    t2["target_local"] = True
                    t2.pop("virtual", None)
                    n += 1
        p.canonicalised = getattr(p, "canonicalised", {})
        p.canonicalised[w] = {"wrapped": wrapped, "calls_rewritten": n}


def load_program(main_path, bins_path=None):
    p = Program()
    doc, moved = _normalise_moves(json.load(open(main_path)))
    p.moved = moved
    p.add(doc)
    _canonicalise_wrappers(p)
    if bins_path:
        p.add(json.load(open(bins_path)), strip_prefix="chialisp")
    return p
