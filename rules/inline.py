"""MIR-level inlining of crate-local helper functions into a caller, so that
intra-procedural rules are insensitive to "extract a private helper" / "inline
a private helper" refactors.

`inlined(prog, fn, pred, depth)` returns a new Fn whose body is fn's body with
every call to a function g (resolved callee, present in prog, pred(g) true, not
fn itself, not already on the inlining stack) replaced by g's body:

    caller block:  ...; _d = g(a0, a1) -> T      becomes   ...; L+1 = a0; L+2 = a1; goto B0
    g's blocks are appended with locals shifted by L and blocks shifted by B0;
    g's `return`   becomes   _d = move L+0; goto T
    g's `resume`   becomes   goto <caller's unwind block> (when there is one)

The original call is kept visible for rules that look for it: the parameter
assignments carry "inl_call": g.path and the synthetic Fn lists inlined
callees in d["inlined"].  Closures are not inlined (they are reached through
trait calls; rules that need them use Program.family)."""
import copy
import re

from mir import Fn, callee_of

BLOCK_KEYS = ("target", "unwind", "otherwise")


def _shift(x, L, B, in_term=False):
    """Deep-copy JSON x shifting locals by L (places and index projections) and block ids by B."""
    if isinstance(x, dict):
        out = {}
        is_place = "l" in x and "p" in x and isinstance(x.get("p"), list) and isinstance(x.get("l"), int)
        for k, v in x.items():
            if is_place and k == "l":
                out[k] = v + L
            elif k == "idx" and isinstance(v, int):
                out[k] = v + L
            elif k in BLOCK_KEYS and isinstance(v, int) and "k" in x:
                out[k] = v + B
            elif k == "arms" and "k" in x:
                out[k] = [[a, t + B] for a, t in v]
            elif k == "succ" and "k" in x:
                out[k] = [t + B for t in v]
            else:
                out[k] = _shift(v, L, B)
        return out
    if isinstance(x, list):
        return [_shift(v, L, B) for v in x]
    return x


def module_of(g):
    """Module path of a function (methods: the module of their impl block)."""
    par = g.parent or ""
    if (g.d.get("parent_kind") or "").startswith("Mod"):
        return par
    if par.startswith("<") and " as " in par:
        par = par[1:].split(" as ")[0]          # `<Type as Trait>`: the Self type's module
    par = re.sub(r"<.*$", "", par)              # strip generic arguments
    return par.rsplit("::", 1)[0] if "::" in par else par


def same_module(f, g):
    return module_of(f) == module_of(g)


def default_pred(prog, caller):
    """Inline crate-local, non-public-API helpers of moderate size defined in the same module as the caller."""
    mod = caller.parent

    def pred(g):
        if g.kind not in ("Fn", "AssocFn"):
            return False
        if len(g.blocks) > 250:
            return False
        vis = g.vis or ""
        if vis == "Public":
            return False
        return True
    return pred


def inlined(prog, fn, pred=None, depth=2):
    if pred is None:
        pred = default_pred(prog, fn)
    d = copy.deepcopy(fn.d)
    d["inlined"] = []
    d.setdefault("promoted_of", {})
    d["promoted_of"][fn.d["path"]] = fn.d.get("promoted", [])
    # worklist of (block index, stack of function paths, remaining depth)
    work = [(i, (fn.path,), depth) for i in range(len(d["blocks"]))]
    while work:
        bi, stack, dep = work.pop(0)
        b = d["blocks"][bi]
        t = b["t"]
        if t["k"] != "call" or dep <= 0 or t.get("target") is None:
            continue
        c = callee_of(t)
        g = prog.fns.get(c) if c else None
        if g is None or g.path in stack or not pred(g) or t.get("virtual"):
            continue
        if len(t["args"]) != g.argc:
            continue    # spread / rust-call ABI
        L = len(d["locals"])
        B = len(d["blocks"])
        d["locals"].extend(copy.deepcopy(g.locals))
        line = t.get("line")
        for i, a in enumerate(t["args"]):
            b["s"].append({"pl": {"l": L + 1 + i, "p": []}, "rv": {"k": "use", "op": a}, "line": line, "inl_call": g.path})
        dest, target, unwind = t["dest"], t["target"], t.get("unwind")
        b["t"] = {"k": "goto", "target": B, "line": line, "file": t.get("file"), "inl_from": g.path}
        for gi, gb in enumerate(g.blocks):
            nb = _shift(gb, L, B)
            tt = nb["t"]
            if tt["k"] == "return":
                nb["s"].append({"pl": dest, "rv": {"k": "use", "op": {"k": "move", "pl": {"l": L, "p": []}}}, "line": tt.get("line"),
                                "inl_ret": g.path})
                nb["t"] = {"k": "goto", "target": target, "line": tt.get("line"), "file": tt.get("file")}
            elif tt["k"] == "resume" and unwind is not None:
                nb["t"] = {"k": "goto", "target": unwind, "line": tt.get("line"), "file": tt.get("file")}
            d["blocks"].append(nb)
            work.append((B + gi, stack + (g.path,), dep - 1))
        d["inlined"].append(g.path)
        d["promoted_of"][g.d["path"]] = g.d.get("promoted", [])
    out = Fn(d, fn.crate)
    out.path = fn.path
    out.root = fn.root
    return out
