"""C18 — the dependency listing names every file a compilation reads.

R18.a who-may-read + first-match resolver; R18.b read => record pairing in
the preprocessor (recorder analysis with exempt pseudo-file edge); R18.c only
the pseudo-file filter removes entries; the includes vector handed to the
preprocessor is the one returned by the listing."""
import os

import runner
from flow import Flow
from mir import callee_of, op_local, op_place, op_const, rv_operands
from paths import follow_result, ok_assign_blocks, must_pass
from report import Report

PID = "C18"
READ_DECL = "compiler::comptypes::CompilerOpts::read_new_file"
DESC = "compiler::comptypes::IncludeDesc"
FS_READ = ("std::fs::read", "std::fs::read_to_string", "std::fs::File::open", "std::fs::read_dir",
           "std::fs::OpenOptions::open", "std::io::Read")
SHRINK = ("::clear", "::truncate", "::pop", "::remove", "::swap_remove", "::retain", "::retain_mut",
          "::drain", "::dedup", "::dedup_by", "::dedup_by_key", "::split_off", "::resize", "::set_len")
DROPPING_ADAPTORS = ("Iterator::filter", "Iterator::filter_map", "Iterator::skip", "Iterator::take",
                     "Iterator::skip_while", "Iterator::take_while", "Iterator::step_by",
                     "Iterator::map_while", "Iterator::find", "Iterator::nth", "Iterator::last",
                     "Iterator::next", "Iterator::flat_map")


READER_WRAPPERS = set()     # preprocessor functions that only forward the result of read_new_file (filled in run())


def is_read(t):
    return (t.get("callee") or "") == READ_DECL or (callee_of(t) or "").endswith("::read_new_file") \
        or (callee_of(t) or "") in READER_WRAPPERS


def reader_id(t):
    """Which resolver a read goes through: the trait method itself or a wrapper function."""
    c = callee_of(t) or ""
    return c if c in READER_WRAPPERS else "read_new_file"


_PUSH_HELPERS = {}


def push_helper_summary(prog, path):
    """A crate-local helper h(.., vec, .., name, ..) that on every path pushes an IncludeDesc whose `name`
    derives from one of its parameters onto a Vec<IncludeDesc> parameter: returns (vec_argidx, name_argidx)."""
    if path in _PUSH_HELPERS:
        return _PUSH_HELPERS[path]
    _PUSH_HELPERS[path] = None
    h = prog.fn(path)
    if h is None or h.kind == "Closure":
        return None
    hfl = Flow(h)
    for bb, t in h.calls():
        c = callee_of(t) or ""
        if c.endswith("Vec::<T, A>::push") and t.get("gargs") and t["gargs"][0] == DESC:
            vparams = [x for x in hfl.back([op_local(t["args"][0])]) if 1 <= x <= h.argc and "Vec<" in h.local_ty(x)]
            names, found = pushed_name_locals(h, hfl, t)
            nparams = {x for n in names for x in hfl.back_pure([n]) if 1 <= x <= h.argc and x not in vparams}
            if len(vparams) == 1 and len(nparams) == 1 and must_pass(h, 0, h.return_blocks(), [bb]):
                _PUSH_HELPERS[path] = (vparams[0] - 1, next(iter(nparams)) - 1)
    return _PUSH_HELPERS[path]


def push_sites(f, fl, prog=None):
    """Push events in f: direct Vec<IncludeDesc>::push calls and calls to push helpers, normalised to
    pseudo-terminators with args [vec, desc_or_name]."""
    out = []
    for bb, t in f.calls():
        c = callee_of(t) or ""
        if c.endswith("Vec::<T, A>::push") and t.get("gargs") and t["gargs"][0] == DESC:
            out.append((bb, t))
        elif prog is not None and (t.get("callee_local") or t.get("target_local")):
            sm = push_helper_summary(prog, c)
            if sm and max(sm) < len(t["args"]):
                out.append((bb, {"args": [t["args"][sm[0]], t["args"][sm[1]]], "helper": c, "name_direct": True,
                                 "dest": t["dest"], "k": "call"}))
    return out


def pushed_name_locals(f, fl, t):
    """Locals feeding the `name` field of the IncludeDesc being pushed."""
    if t.get("name_direct"):
        l = op_local(t["args"][1])
        return ({l} if l is not None else set()), True
    l = op_local(t["args"][1])
    names = set()
    if l is None:
        return names, False
    found_agg = False
    for x in fl.back([l]):
        for bb, i, s in fl.agg_defs.get(x, []):
            rv = s["rv"]
            if rv.get("adt") == DESC:
                found_agg = True
                idx = rv["fields"].index("name")
                ol = op_local(rv["ops"][idx])
                if ol is not None:
                    names.add(ol)
    return names, found_agg


def run(tier="quick", replay=None):
    R = Report(PID, tier,
               "Pairing rule read => record over the preprocessor's MIR: every CompilerOpts::read_new_file call "
               "site is either followed on all success paths by a push of an IncludeDesc whose name derives from "
               "the resolver's returned path, or is dominated in every caller by a call to such a recorder on the "
               "same include description; recorder skip edges are classified (pseudo-file test allowed). Plus "
               "who-may-read (no direct fs reads in the modern compiler outside the resolver), first-match shape "
               "of the resolver loop, the include vector reaching the listing unshrunk, and the listing's filter "
               "being exactly the `*` pseudo-file predicate.",
               "MIR pairing/dominance rules + value flow + who-may-call")
    prog, _, infos = runner.load("default")
    R.facts_info = infos
    R.trusted = ["rustc MIR construction", "CHA over local impls of CompilerOpts"]
    R.assumptions = ["classic compiler's private `_read` resolves names through the same read_new_file but is not "
                     "part of the listing's scope", "filesystem does not change between the recorder's read and the consumer's read"]

    # ---------------- R18.b ------------------------------------------------------
    # reader wrappers: functions that call read_new_file, hand its result back and record nothing themselves; a call of
    # such a wrapper is a read site (and which wrapper is used is part of the site's identity)
    READER_WRAPPERS.clear()
    for f in prog.fns.values():
        if not f.root.startswith("compiler::preprocessor::") or f.kind == "Closure":
            continue
        reads = [(bb, t) for bb, t in f.calls() if (t.get("callee") or "") == READ_DECL or (callee_of(t) or "").endswith("::read_new_file")]
        if not reads:
            continue
        wfl = Flow(f)
        if push_sites(f, wfl, prog):
            continue
        if all(t["dest"]["l"] == 0 or 0 in wfl.forward([t["dest"]["l"]]) for _, t in reads) and "Vec<u8>" in f.local_ty(0) \
                and "IncludeDesc" not in " ".join(f.local_ty(i) for i in range(1, f.argc + 1)):
            READER_WRAPPERS.add(f.path)
    R.counts["reader wrappers"] = sorted(READER_WRAPPERS)
    sites = []
    for f in prog.fns.values():
        if not f.root.startswith("compiler::preprocessor::") or f.path in READER_WRAPPERS:
            continue
        for bb, t in f.calls():
            if is_read(t):
                sites.append((f, bb, t))
    R.floor("R18.b", "read_new_file sites in the preprocessor", len(sites), 3)

    recorders = {}      # fn path -> dict(skips=[...], desc_param=int)
    plain_readers = []  # (f, bb, t)
    for f, bb, t in sites:
        fl = Flow(f)
        fr = follow_result(f, bb)
        pushes = push_sites(f, fl, prog)
        rec_push = None
        for pbb, pt in pushes:
            names, found = pushed_name_locals(f, fl, pt)
            if any(t["dest"]["l"] in fl.back([n]) for n in names):
                rec_push = (pbb, pt)
        if rec_push is None or fr is None:
            plain_readers.append((f, bb, t))
            continue
        pbb, pt = rec_push
        oks = ok_assign_blocks(f)
        rets = f.return_blocks()
        # every normal path from the read's success edge to a return records first
        ok = all(must_pass(f, s, rets, [pbb]) for s in fr["success"])
        key = "R18.b|%s|read=>record" % f.path
        R.check(ok, "R18.b", key, f.loc(bb),
                "auto: success edge of read_new_file -> push(IncludeDesc{name: <resolved name>}) on every path",
                "%s reads a file but a path from the read's success edge reaches a return without recording it "
                "in the includes list" % f.path, fn=f.path)
        # the vector pushed to is a parameter
        vparams = {x for x in fl.back([op_local(pt["args"][0])]) if 1 <= x <= f.argc}
        # skip edges: tests that commit to never reading/recording yet still return Ok
        skips = []
        can_reach_read = {b for b in range(len(f.blocks)) if bb in f.reachable(b)}
        for sb, blk in enumerate(f.blocks):
            tt = blk["t"]
            if tt["k"] != "switch" or blk.get("cleanup") or sb not in can_reach_read or sb not in f.reachable(0):
                continue
            edges = [(v, tgt) for v, tgt in tt["arms"]] + [("otherwise", tt["otherwise"])]
            for v, tgt in edges:
                if tgt in can_reach_read:
                    continue
                if not (f.reachable(tgt) & set(oks)):
                    continue   # leads to errors only
                skips.append(classify_skip(f, fl, sb, v, edges))
        recorders[f.path] = {"skips": skips, "vec_params": vparams, "site": f.loc(bb), "reader": reader_id(t)}
        for sk in skips:
            key = "R18.b.skip|%s|%s" % (f.path, sk["what"])
            if sk["class"] == "pseudo-file":
                R.ob("R18.b.skip", key, sk["site"], "auto: skip only for built-in pseudo-files (KNOWN_DIALECTS.contains_key true edge)", fn=f.path)
            elif sk["class"] == "conditional":
                R.info("recorder %s skips recording when %s (evaluated per call site)" % (f.path, sk["what"]))
            else:
                R.viol("R18.b.skip", key, sk["site"],
                       "recorder %s returns Ok without reading/recording on an edge that is not the pseudo-file "
                       "test (%s)" % (f.path, sk["what"]), fn=f.path)
    # wrappers: a function without a read of its own that calls a recorder with its own parameters on every success path
    # (e.g. a cycle guard wrapped around the real worker) records exactly what the recorder records
    def param_passthrough(w, wfl, ct):
        for a in ct["args"][1:]:
            l = op_local(a)
            if l is None:
                continue
            src = wfl.back_pure([l])
            if not any(1 <= x <= w.argc for x in src):
                return False
        return True
    changed = True
    rounds = 0
    while changed and rounds < 3:
        changed = False
        rounds += 1
        for w in prog.fns.values():
            if not w.root.startswith("compiler::preprocessor::") or w.kind == "Closure" or w.path in recorders:
                continue
            if any(is_read(t) for _, t in w.calls()):
                continue
            rc_calls = [(bb, t) for bb, t in w.calls() if callee_of(t) in recorders]
            if len(rc_calls) != 1:
                continue
            cbb, ct = rc_calls[0]
            wfl = Flow(w)
            oks = ok_assign_blocks(w)
            # the wrapper's result is the recorder's result, or every Ok return comes after the call
            through = must_pass(w, 0, [b for b in w.return_blocks()], [cbb]) or all(must_pass(w, 0, [b], [cbb]) for b in oks)
            err_only_before = True
            from paths import err_assign_blocks as _errb
            errb = set(_errb(w))
            for rb in w.return_blocks():
                if not must_pass(w, 0, [rb], [cbb]):
                    # a return that bypasses the recorder must be an error return
                    if not (set(w.reachable(0, avoid=[cbb])) & errb):
                        err_only_before = False
            if param_passthrough(w, wfl, ct) and (through or err_only_before) and not (set(oks) & set(w.reachable(0, avoid=[cbb]))):
                inner = recorders[callee_of(ct)]
                recorders[w.path] = {"skips": inner["skips"], "vec_params": inner.get("vec_params", set()), "site": w.loc(cbb), "wraps": callee_of(ct),
                                     "reader": inner.get("reader")}
                R.ob("R18.b", "R18.b|%s|wrapper-of-recorder" % w.path, w.loc(cbb),
                     "auto: records through %s (called with its own parameters before every Ok return)" % callee_of(ct), fn=w.path)
                changed = True
    R.floor("R18.b", "recorder functions", len(recorders), 1)

    # invariant used for conditional skips: IncludeDesc.kind per IncludeType variant
    kind_by_variant = include_kind_by_variant(prog)
    R.counts["IncludeDesc.kind by IncludeType variant"] = {k: sorted(v) for k, v in kind_by_variant.items()}

    for f, bb, t in plain_readers:
        # every caller must call a recorder on the same description first
        callers = [(g, cbb, ct) for g, cbb, ct in prog.call_sites(lambda c: c == f.path) if g.path != f.path]
        # a caller that merely forwards its own parameters (a wrapper around the reader) passes the obligation on to ITS callers
        for _lift in range(3):
            lifted = []
            again = False
            for g, cbb, ct in callers:
                gfl0 = Flow(g)
                has_rec = any(callee_of(rt) in recorders and g.dominates(rbb, cbb) and rbb != cbb for rbb, rt in g.calls())
                if not has_rec and g.kind != "Closure" and not any(is_read(t2) for _, t2 in g.calls()) and param_passthrough(g, gfl0, ct):
                    up = [(g2, b2, t2) for g2, b2, t2 in prog.call_sites(lambda c, gp=g.path: c == gp) if g2.path != g.path]
                    if up:
                        lifted.extend(up)
                        again = True
                        continue
                lifted.append((g, cbb, ct))
            callers = lifted
            if not again:
                break
        key = "R18.b|%s|unrecorded-read" % f.path
        if not callers:
            R.viol("R18.b", key, f.loc(bb), "%s reads a file without recording it and has no caller that records" % f.path, fn=f.path)
            continue
        problems = []
        for g, cbb, ct in callers:
            gfl = Flow(g)
            # locals the consumer's arguments derive from
            def novec(x):
                return "Vec<compiler::comptypes::IncludeDesc>" in gfl.ty(x)
            arg_src = set()
            for a in ct["args"][1:]:
                l = op_local(a)
                if l is not None and not novec(l):
                    arg_src |= gfl.back_pure([l], stop=novec)
            found = None
            for rbb, rt in g.calls():
                rc = callee_of(rt)
                if rc in recorders and g.dominates(rbb, cbb) and rbb != cbb:
                    # same description: some non-self argument shares a source local
                    rsrc = set()
                    for a in rt["args"][1:]:
                        l = op_local(a)
                        if l is not None and DESC in gfl.ty(l) and not novec(l):
                            rsrc |= gfl.back_pure([l], stop=novec)
                    common = {x for x in (rsrc & arg_src) if "Include" in gfl.ty(x) and not novec(x)}
                    if common:
                        found = (rbb, rt, rc, common)
            if found is None:
                problems.append("%s calls it at %s with no dominating recorder call on the same include" % (g.path, g.loc(cbb)))
                continue
            rbb, rt, rc, common = found
            # the recorder and the consumer must resolve the name through the SAME reader, or the listing names a file other
            # than the one compiled in
            if recorders[rc].get("reader") not in (None, reader_id(t)):
                problems.append("the recorder %s resolves the name with %s but %s reads it with %s: the listed file need not be the "
                                "file that is read" % (rc.rsplit("::", 1)[-1], recorders[rc]["reader"].rsplit("::", 1)[-1],
                                                       f.path.rsplit("::", 1)[-1], reader_id(t).rsplit("::", 1)[-1]))
            # conditional skips of the recorder, evaluated for this call site
            for sk in recorders[rc]["skips"]:
                if sk["class"] != "conditional":
                    continue
                variants = variants_of(g, arg_src & rsrc_of(gfl, g, rt, novec))
                for v in sorted(variants) or ["?"]:
                    kinds = kind_by_variant.get(v, {"unknown"})
                    if sk["field"] == "kind" and sk["pred"] == "is_some" and kinds == {"None"}:
                        continue   # skip never taken for this variant
                    problems.append(
                        "%s calls recorder %s first, but the recorder returns without recording when %s, and "
                        "descriptions of variant IncludeType::%s have kind in %s" % (
                            g.path, rc, sk["what"], v, sorted(kinds)))
        if problems:
            R.viol("R18.b", key, f.loc(bb),
                   "%s reads a file (read_new_file) that is not guaranteed to be recorded in the dependency list: %s" % (
                       f.path, "; ".join(problems)), fn=f.path)
        else:
            R.ob("R18.b", key, f.loc(bb), "auto: every caller (%d) first calls a recorder on the same description; "
                 "recorder skips do not apply" % len(callers), fn=f.path)

    # ---------------- R18.a who may read -----------------------------------------
    nread = 0
    resolver = None
    for f in prog.fns.values():
        if not f.file.startswith("src/compiler/"):
            continue
        for bb, t in f.calls():
            c = callee_of(t) or ""
            if any(c.startswith(x) or (" as " + x) in c for x in FS_READ):
                nread += 1
                is_resolver = f.root.endswith("::read_new_file") and "DefaultCompilerOpts" in f.root
                if is_resolver:
                    resolver = prog.fn(f.root)
                R.check(is_resolver, "R18.a", "R18.a|%s|%s" % (f.root, c), f.loc(bb),
                        "auto: the single resolver DefaultCompilerOpts::read_new_file",
                        "%s reads the filesystem directly (%s): files read by the modern compiler must go through "
                        "CompilerOpts::read_new_file so that they are recorded" % (f.root, c), fn=f.root)
    R.floor("R18.a", "direct fs reads under compiler::", nread, 1)
    if resolver is not None:
        check_resolver(prog, resolver, R)

    # ---------------- R18.c listing filter and vector plumbing ---------------------
    gd = prog.fn("compiler::preprocessor::gather_dependencies")
    if gd is None:
        R.viol("R18.c", "R18.c|anchor-lost|gather_dependencies", "compiler::preprocessor", "anchor lost: gather_dependencies")
    else:
        nfilter = 0
        for f in prog.fns.values():
            for bb, t in f.calls():
                d = t.get("callee") or ""
                g = t.get("gargs") or []
                if not g or DESC not in g[0]:
                    continue
                c = callee_of(t) or ""
                if any(d.endswith(x) for x in DROPPING_ADAPTORS) and not d.endswith("Iterator::next"):
                    nfilter += 1
                    ok, why = is_pseudo_filter(prog, f, t) if d.endswith("Iterator::filter") else (False, "adaptor " + d)
                    R.check(ok, "R18.c.filter", "R18.c.filter|%s|%s" % (f.path, d.split("::")[-1]), f.loc(bb),
                            "auto: filter closure is exactly !name.starts_with(b\"*\")",
                            "%s drops include entries with %s: %s" % (f.path, d, why), fn=f.path)
                if c.startswith("std::vec::Vec::<T, A>") and any(c.endswith(x) for x in SHRINK) and g[0] == DESC:
                    R.viol("R18.c.shrink", "R18.c.shrink|%s|%s" % (f.path, c.split("::")[-1]), f.loc(bb),
                           "%s removes entries from a Vec<IncludeDesc> (%s)" % (f.path, c), fn=f.path)
        R.floor("R18.c", "dropping adaptors over IncludeDesc", nfilter, 1)
        # plumbing: frontend's vector -> preprocess -> recorder's push
        chain_ok, chain = plumbing(prog, recorders)
        R.check(chain_ok, "R18.c.plumbing", "R18.c.plumbing|frontend->recorder", "compiler::frontend::frontend",
                "auto: " + " -> ".join(chain),
                "the includes vector that ends up in CompileForm.include_forms (returned by the listing) is not the "
                "one the preprocessor's recorder pushes to: " + " -> ".join(chain), fn="compiler::frontend::frontend")
        # gather_dependencies returns the frontend's include_forms
        fl = Flow(gd)
        ret_from = fl.derives_from_call(0, lambda c: c == "compiler::frontend::frontend")
        field_ok = False
        for _, _, s in gd.stmts():
            for o in rv_operands(s["rv"]):
                p = op_place(o)
                if p and any(isinstance(e, dict) and e.get("f") == "include_forms" for e in p["p"]):
                    field_ok = True
        R.check(bool(ret_from) and field_ok, "R18.c.source", "R18.c.source|gather_dependencies", gd.loc(0),
                "auto: result derives from frontend(..).include_forms",
                "gather_dependencies' result no longer derives from frontend(..).include_forms", fn=gd.path)
        # ... on EVERY success path: no Ok return of the listing bypasses the frontend (an early `return Ok(vec![])`
        # would report an empty listing while the compiler still reads files)
        fe_blocks = [bb for bb, t in gd.calls() if callee_of(t) == "compiler::frontend::frontend"]
        oks = ok_assign_blocks(gd)
        bypass = [b for b in oks if not must_pass(gd, 0, [b], fe_blocks)]
        R.check(bool(fe_blocks) and bool(oks) and not bypass, "R18.c.source", "R18.c.source|every-ok-through-frontend",
                "%s:%s" % (gd.file, gd.line),
                "auto: every Ok return of gather_dependencies is preceded by the frontend call on all paths (%d Ok site(s))" % len(oks),
                "gather_dependencies has a success return that does not pass through frontend(..): the listing for such inputs "
                "is not what the compiler reads", fn=gd.path)
    # ---------------- R18.e no throw-away include vector ---------------------------------------------
    # R18.b pairs every read with a push onto "the" includes vector and R18.c.plumbing shows that the vector of the listing
    # CAN reach a recorder.  Both are void if some function on the way hands the recorder a vector of its own: what is
    # recorded there is dropped with it.  Every locally created Vec<IncludeDesc> that is lent (&mut) to a crate-local
    # function must therefore end up in the caller's result, in one of its parameters (e.g. appended to the caller's own
    # includes vector) or in a field - followed through values that hold IncludeDesc, not through unrelated call results.
    VEC_DESC = "std::vec::Vec<%s>" % DESC
    nlocal = 0
    for f in sorted(prog.fns.values(), key=lambda f: f.path):
        cands = [l for l in range(f.argc + 1, len(f.locals)) if f.local_ty(l) == VEC_DESC]
        if not cands:
            continue
        fl = Flow(f)
        for l in cands:
            if not fl.call_defs.get(l) and not fl.agg_defs.get(l):
                continue      # a moved copy / pattern binding of a vector created elsewhere
            # is it lent to a crate-local callee as a recorder sink?
            carriers = {l}
            work = [l]
            while work:
                x = work.pop()
                for y in fl.fwd.get(x, ()):
                    if y not in carriers and "IncludeDesc" in fl.ty(y):
                        carriers.add(y)
                        work.append(y)
            lent = []
            for bb, t in f.calls():
                if not (t.get("callee_local") or t.get("target_local")):
                    continue
                tys = t.get("arg_tys", [])
                for ai, a in enumerate(t["args"]):
                    al = op_local(a)
                    if al is not None and al in carriers and ai < len(tys) and tys[ai].startswith("&mut ") and "IncludeDesc" in tys[ai]:
                        lent.append((bb, callee_of(t) or t.get("callee")))
            if not lent:
                continue
            nlocal += 1
            escapes = 0 in carriers or any((1 <= x <= f.argc) or x < 0 for x in carriers)
            if not escapes:
                for _, _, st in f.stmts():
                    ops = [op_local(o) for o in rv_operands(st["rv"])]
                    if any(o in carriers for o in ops if o is not None):
                        dn = fl.node(st["pl"])
                        if st["rv"]["k"] == "agg" or st["pl"]["p"]:
                            fw = fl.forward([dn])
                            if 0 in fw or any((1 <= x <= f.argc) or x < 0 for x in fw):
                                escapes = True
            R.check(escapes, "R18.e", "R18.e|%s|scratch-include-vector" % f.path, f.loc(lent[0][0]),
                    "auto: the locally created include vector lent to %s ends up in the function's result / parameters" % lent[0][1],
                    "%s lends a locally created Vec<IncludeDesc> to %s and then drops it: every file recorded through that call is "
                    "missing from the dependency listing although it is read" % (f.path, lent[0][1]), fn=f.path)
    R.floor("R18.e", "locally created include vectors lent to recorders", nlocal, 1)

    # ---------------- R18.f nested programs hand their include lists up ------------------------------
    # `frontend` is re-entered for a `(mod ..)` nested in an expression (call-graph cycle frontend -> compile_bodyform ->
    # frontend).  The inner call records the files it reads in the INNER CompileForm's include_forms; the listing reads
    # only the outermost one.  Unless some function reachable from frontend copies a CompileForm's include_forms into an
    # include vector (extend / append / push), files included by nested mods are read but never listed (found F28).
    FE = "compiler::frontend::frontend"
    fe_fn = prog.fn(FE)
    if fe_fn is None:
        R.viol("R18.f", "R18.f|anchor-lost|frontend", "compiler::frontend", "anchor lost: compiler::frontend::frontend")
    else:
        reach = prog.reachable_fns([FE])
        reentered = any(callee_of(t) == FE for p_ in reach if p_ != FE and prog.fn(p_) is not None for _, t in prog.fn(p_).calls())
        if not reentered:
            R.ob("R18.f", "R18.f|frontend-not-reentered", "%s:%s" % (fe_fn.file, fe_fn.line),
                 "auto: frontend is not called from anything it reaches (no nested programs with include lists of their own)")
        else:
            merges = []
            for p_ in sorted(reach):
                g = prog.fn(p_)
                if g is None:
                    continue
                gfl = None
                for bb, t in g.calls():
                    c = callee_of(t) or ""
                    nm = c.rsplit("::", 1)[-1]
                    if nm not in ("extend", "append", "push", "extend_from_slice") or "Vec" not in c:
                        continue
                    if DESC not in " ".join(t.get("gargs") or []) + " ".join(t.get("arg_tys") or []):
                        continue
                    gfl = gfl or Flow(g)
                    for a in t["args"][1:]:
                        al = op_local(a)
                        if al is None:
                            continue
                        sl = gfl.back_pure([al])
                        for _, _, st in g.stmts():
                            if gfl.node(st["pl"]) in sl:
                                for o in rv_operands(st["rv"]):
                                    pl = op_place(o)
                                    if pl and any(isinstance(e, dict) and e.get("f") == "include_forms" for e in pl["p"]):
                                        merges.append("%s at %s" % (g.path, g.loc(bb)))
            R.check(bool(merges), "R18.f", "R18.f|nested-include-lists-merged", "%s:%s" % (fe_fn.file, fe_fn.line),
                    "auto: the include list of a nested program is copied into an include vector (%s)" % ", ".join(sorted(set(merges))[:2]),
                    "frontend is re-entered for nested (mod ..) forms, but nothing reachable from it copies a CompileForm's include_forms "
                    "into an include vector: a file included by a nested mod is read by the compiler and missing from the dependency "
                    "listing", fn=FE)

    # ---------------- R18.a.store the resolver searches the path it was given -------------------------
    # `set_search_paths` is the single place where the -i list becomes the resolver's include_dirs (R18.a.first shows that
    # the resolver walks include_dirs front to back and R11.f that every entry point hands the list over untouched).  It
    # must store the list as given: a filter / dedup / sort / reverse in between makes the modern resolver (and the
    # listing) search in another order than the classic reader, which receives the raw list.  A transformation that
    # happens to preserve first-match resolution (dropping LATER duplicates) would be reported too - said in DESIGN.
    ssp = [g for g in prog.fns.values() if g.path.endswith("::set_search_paths") and "DefaultCompilerOpts" in g.path and g.kind != "Closure"]
    if not ssp:
        R.viol("R18.a.store", "R18.a.store|anchor-lost", "compiler::compiler", "anchor lost: DefaultCompilerOpts::set_search_paths")
    for g in ssp:
        REORDER = ("sort", "sort_by", "sort_by_key", "sort_unstable", "sort_unstable_by", "sort_unstable_by_key", "dedup", "dedup_by",
                   "dedup_by_key", "reverse", "retain", "retain_mut", "swap", "rotate_left", "rotate_right", "truncate", "swap_remove",
                   "rev", "filter", "filter_map", "skip", "take", "skip_while", "take_while", "step_by", "remove", "insert", "drain",
                   "chain", "pop", "split_off", "flat_map")
        bad = []
        for h in prog.family(g.path):
            if h.kind == "Closure" and h is not g:
                continue
            for bb, t in h.calls():
                nm = (callee_of(t) or "").rsplit("::", 1)[-1]
                dn = (t.get("callee") or "").rsplit("::", 1)[-1]
                g0 = " ".join(t.get("gargs") or []) + " " + " ".join(t.get("arg_tys") or [])
                if (nm in REORDER or dn in REORDER) and "String" in g0:
                    bad.append("%s at %s" % (callee_of(t) or t.get("callee"), h.loc(bb)))
        gfl = Flow(g)
        stored = False
        for _, _, st in g.stmts():
            if any(isinstance(e, dict) and e.get("f") == "include_dirs" for e in st["pl"]["p"]):
                stored = True
        for bb, t in g.calls():
            for a in t["args"]:
                pl = op_place(a)
                if pl and any(isinstance(e, dict) and e.get("f") == "include_dirs" for e in pl["p"]):
                    stored = True
            for _, _, st in g.stmts():
                if st["rv"]["k"] == "ref" and any(isinstance(e, dict) and e.get("f") == "include_dirs" for e in st["rv"]["pl"]["p"]):
                    stored = True
        R.check(stored and not bad, "R18.a.store", "R18.a.store|search-path-stored-as-given", "%s:%s" % (g.file, g.line),
                "auto: set_search_paths copies the given list into include_dirs without filtering or reordering",
                "%s %s: the resolver and the listing then search another list than the one the caller (and the classic reader) "
                "uses" % (g.path, "transforms the search path before storing it (%s)" % "; ".join(bad) if bad else "does not store into include_dirs"),
                fn=g.path)

    # ---------------- R18.d classic reader sees the search path in the same order ------------------
    # The classic compiler (embed-file in programs without a dialect sigil) reads files through stage_2's reader, which
    # walks the CLVM list produced by get_include_paths.  That list is built by consing onto an accumulator, so the
    # search path must be traversed in reverse for the list to come out in search-path order (first match = the file the
    # listing names).
    GIP = "classic::clvm_tools::stages::stage_2::operators::CompilerOperatorsInternal::get_include_paths"
    fam = prog.family(GIP)
    if not fam:
        R.viol("R18.d", "R18.d|anchor-lost|get_include_paths", "classic::clvm_tools::stages::stage_2::operators",
               "anchor lost: CompilerOperatorsInternal::get_include_paths")
    else:
        prepend = append = False
        reversed_ = False
        for f in fam:
            fl = Flow(f)
            for bb, t in f.calls():
                c = callee_of(t) or ""
                d = t.get("callee") or ""
                if any(x in c or x in d for x in ("iter::Rev<", "Iterator::rev", "rfold", "next_back", "DoubleEndedIterator")):
                    reversed_ = True
                if c.endswith("Allocator::new_pair") and len(t["args"]) >= 3:
                    def from_atom(op):
                        l = op_local(op)
                        if l is None:
                            return False
                        is_pair = lambda x: any((callee_of(tt) or "").endswith("Allocator::new_pair") for _, tt in fl.call_defs.get(x, []))
                        return bool([1 for x in fl.back_pure([l], stop=is_pair) for _, tt in fl.call_defs.get(x, [])
                                     if (callee_of(tt) or "").endswith("Allocator::new_atom")])
                    a1, a2 = from_atom(t["args"][1]), from_atom(t["args"][2])
                    if a1 and not a2:
                        prepend = True
                    elif a2 and not a1:
                        append = True
        R.check(prepend and not append and reversed_, "R18.d", "R18.d|classic-search-path-order", "%s:%s" % (fam[0].file, fam[0].line),
                "auto: get_include_paths conses each path onto the accumulated list while traversing search_paths in reverse "
                "(list comes out in search-path order)",
                "get_include_paths builds the classic reader's search list in the wrong order (cons-prepend=%s, cons-as-tail=%s, "
                "reverse traversal=%s): classic embed-file would take the LAST match while the listing names the first" % (
                    prepend, append, reversed_), fn=GIP)
    R.extra["recorders"] = {k: {"skips": v["skips"], "site": v["site"]} for k, v in recorders.items()}
    return R.finalize()


def rsrc_of(gfl, g, rt, novec):
    out = set()
    for a in rt["args"][1:]:
        l = op_local(a)
        if l is not None and DESC in gfl.ty(l) and not novec(l):
            out |= gfl.back_pure([l], stop=novec)
    return out


def classify_skip(f, fl, sb, v, edges):
    tt = f.term(sb)
    dl = op_local(tt["discr"])
    site = f.loc(sb)
    what = "switch@%s" % site
    cls = "unknown"
    field = pred = None
    calls = fl.call_defs.get(dl, []) if dl is not None else []
    # the tested bool may be the call result directly
    for cbb, ct in calls:
        c = callee_of(ct) or ""
        truthy = (v == "otherwise" and any(x == 0 for x, _ in edges if x != "otherwise")) or v == 1
        if c.endswith("::contains_key"):
            recv = op_local(ct["args"][0])
            statics = [k.get("static") for k in fl.consts_into([recv]) if "static" in k]
            what = "contains_key(%s)==%s" % (",".join(sorted(set(statics))) or "?", truthy)
            if truthy and any(s and s.endswith("dialect::KNOWN_DIALECTS") for s in statics):
                cls = "pseudo-file"
        elif c.endswith("Option::<T>::is_some") or c.endswith("Option::<T>::is_none"):
            pred = c.split("::")[-1]
            recv = op_local(ct["args"][0])
            fields = set()
            for _, _, s in f.stmts():
                if s["pl"]["l"] == recv and s["rv"]["k"] == "ref":
                    p = s["rv"]["pl"]
                    if 1 <= p["l"] <= f.argc:
                        fields |= {e["f"] for e in p["p"] if isinstance(e, dict) and "f" in e}
            if fields:
                field = sorted(fields)[-1]
                what = "%s.%s()==%s" % (field, pred, truthy)
                if (pred == "is_none") == truthy and pred == "is_none":
                    pred = "is_none"
                if not truthy:
                    pred = "is_none" if pred == "is_some" else "is_some"
                cls = "conditional"
        else:
            what = "%s==%s" % (c.split("::")[-1], truthy)
    return {"class": cls, "what": what, "site": site, "field": field, "pred": pred}


def include_kind_by_variant(prog):
    """For every construction IncludeType::<V>(IncludeDesc{kind: K, ..}, ..) in the crate:
    V -> set of 'None' / 'Some'."""
    out = {}
    for f in prog.fns.values():
        if f.path.endswith("as std::clone::Clone>::clone"):
            continue   # derived Clone re-wraps the same value
        defs = {}
        for bb, i, s in f.stmts():
            if not s["pl"]["p"]:
                defs.setdefault(s["pl"]["l"], []).append(s)
        for bb, i, s in f.stmts():
            rv = s["rv"]
            if rv["k"] == "agg" and rv.get("adt", "").endswith("preprocessor::IncludeType"):
                v = rv["variant"]
                dl = op_local(rv["ops"][0])
                kinds = set()
                for ds in defs.get(dl, []):
                    r2 = ds["rv"]
                    if r2["k"] == "agg" and r2.get("adt") == DESC:
                        kop = r2["ops"][r2["fields"].index("kind")]
                        kl = op_local(kop)
                        for ks in defs.get(kl, []):
                            r3 = ks["rv"]
                            if r3["k"] == "agg" and r3.get("adt", "").endswith("option::Option"):
                                kinds.add(r3["variant"])
                            else:
                                kinds.add("unknown")
                        if kl is None or kl not in defs:
                            kinds.add("unknown")
                if not kinds:
                    kinds.add("unknown")
                out.setdefault(v, set()).update(kinds)
    return out


def variants_of(g, locals_):
    """IncludeType variant names through which the given locals were bound
    (downcast projections in their defining statements)."""
    out = set()
    for _, _, s in g.stmts():
        if s["pl"]["l"] in locals_:
            for o in rv_operands(s["rv"]):
                p = op_place(o)
                if p:
                    for e in p["p"]:
                        if isinstance(e, dict) and "dc" in e and e["dc"] in ("Basic", "Processed"):
                            out.add(e["dc"])
    return out


def is_pseudo_filter(prog, f, t):
    clo = None
    for a in t["args"][1:]:
        l = op_local(a)
        c = op_const(a)
        if c and "closure" in c:
            clo = prog.fn(c["closure"])
        if l is not None:
            for _, _, s in f.stmts():
                if s["pl"]["l"] == l and s["rv"]["k"] == "agg" and s["rv"].get("agg") == "closure":
                    clo = prog.fn(s["rv"]["closure"])
    if clo is None:
        return False, "filter predicate is not a closure literal"
    calls = list(clo.calls())
    sw = [(bb, tt) for bb, tt in calls if (callee_of(tt) or "").endswith("::starts_with")]
    others = [callee_of(tt) for bb, tt in calls if not (callee_of(tt) or "").endswith("::starts_with")
              and not (callee_of(tt) or "").endswith("::deref") and not (callee_of(tt) or "").endswith("::as_slice")]
    if len(sw) != 1 or others:
        return False, "predicate is not a single starts_with test (calls: %s)" % sorted(set(map(str, others)))
    bb, tt = sw[0]
    fl = Flow(clo)
    from defs import const_bytes
    pat = const_bytes(fl.consts_into([op_local(tt["args"][1])])) if op_local(tt["args"][1]) is not None else []
    c = op_const(tt["args"][1])
    if c:
        pat.extend(const_bytes([c]))
    if pat != [b"*"]:
        return False, "prefix tested is %r, expected b\"*\"" % pat
    # receiver is the .name field of the element
    recv_fields = set()
    for l in fl.back([op_local(tt["args"][0])]):
        for _, _, s in clo.stmts():
            if s["pl"]["l"] == l:
                for o in rv_operands(s["rv"]):
                    p = op_place(o)
                    if p:
                        recv_fields |= {e["f"] for e in p["p"] if isinstance(e, dict) and "f" in e}
    if "name" not in recv_fields:
        return False, "tested value is not the entry's name"
    # result = Not(starts_with)
    neg = False
    for _, _, s in clo.stmts():
        if s["pl"]["l"] == 0 and s["rv"]["k"] == "un" and s["rv"]["op"] == "Not" \
                and op_local(s["rv"]["a"]) == tt["dest"]["l"]:
            neg = True
    if not neg or len([1 for _, _, s in clo.stmts() if s["pl"]["l"] == 0]) != 1:
        return False, "closure result is not exactly !starts_with(..)"
    if any(b["t"]["k"] == "switch" for b in clo.blocks):
        return False, "closure branches"
    return True, ""


VEC = "Vec<compiler::comptypes::IncludeDesc>"


def param_flows(prog, f, param):
    """Where the Vec<IncludeDesc> held by node `param` of f goes: ('call', callee, argidx)
    and ('closure', closure path, upvar index)."""
    fl = Flow(f)
    al = fl.forward([param], stop=lambda x: VEC not in fl.ty(x))
    al = {x for x in al if VEC in fl.ty(x)} | {param}
    out = set()
    for bb, t in f.calls():
        for i, a in enumerate(t["args"]):
            p = op_place(a)
            if p is not None and fl.node(p) in al:
                for c in prog.call_targets(t):
                    out.add(("call", c, i))
    for bb, i, s in f.stmts():
        rv = s["rv"]
        if rv["k"] == "agg" and rv.get("agg") == "closure":
            for k, o in enumerate(rv["ops"]):
                p = op_place(o)
                if p is not None and fl.node(p) in al:
                    out.add(("closure", rv["closure"], k))
    return out


def plumbing(prog, recorders):
    fr = prog.fn("compiler::frontend::frontend")
    chain = []
    if fr is None:
        return False, ["anchor lost: compiler::frontend::frontend"]
    # the CompileForm returned
    fl = Flow(fr)
    src_local = None
    for bb, i, s in fr.stmts():
        rv = s["rv"]
        if rv["k"] == "agg" and rv.get("adt", "").endswith("comptypes::CompileForm"):
            op = rv["ops"][rv["fields"].index("include_forms")]
            cands = [x for x in fl.back([op_local(op)])
                     if fr.local_ty(x) == "std::vec::Vec<compiler::comptypes::IncludeDesc>" and fr.local_name(x)]
            if cands:
                src_local = cands[0]
    if src_local is None:
        return False, ["frontend: CompileForm.include_forms does not derive from a local Vec<IncludeDesc>"]
    chain.append("frontend::%s" % fr.local_name(src_local))
    # BFS over (fn, local) to a recorder's push
    seen = set()
    work = [(fr, src_local)]
    while work:
        f, l = work.pop()
        if (f.path, l) in seen:
            continue
        seen.add((f.path, l))
        for kind, c, i in param_flows(prog, f, l):
            g = prog.fn(c)
            if kind == "closure":
                if g is not None:
                    work.append((g, -(i + 1)))
                continue
            if c in recorders and (i + 1) in recorders[c]["vec_params"]:
                chain.append("... -> %s(arg %d) pushes" % (c, i))
                return True, chain
            if g is not None and i + 1 <= g.argc:
                work.append((g, i + 1))
    chain.append("no path to a recorder (visited %d)" % len(seen))
    return False, chain


def check_resolver(prog, f, R):
    """First-match shape of the include-path loop."""
    fl = Flow(f)
    reads = [(bb, t) for bb, t in f.calls() if (callee_of(t) or "") in ("std::fs::read", "std::fs::read_to_string")]
    nexts = [(bb, t) for bb, t in f.calls() if (t.get("callee") or "").endswith("Iterator::next")]
    site = "%s:%d" % (f.file, f.line)
    if len(reads) != 1 or not nexts:
        R.viol("R18.a.first", "R18.a.first|anchor-lost", site, "anchor lost: resolver is not a loop around one fs::read", fn=f.path)
        return
    rbb, rt = reads[0]
    # iteration source: the include_dirs field, front to back
    nbb, nt = nexts[0]
    it_local = op_local(nt["args"][0])
    src_fields = set()
    bad_calls = []
    for l in fl.back([it_local]):
        for cb, ct in fl.call_defs.get(l, []):
            c = (ct.get("callee") or "") + " " + (callee_of(ct) or "")
            if any(x in c for x in ("::rev", "sort", "::reverse", "Iterator::skip", "::last", "::max", "::min",
                                    "::step_by", "::chain", "::rchunks", "::rsplit")):
                bad_calls.append(callee_of(ct))
        for _, _, s in f.stmts():
            if s["pl"]["l"] == l:
                for o in rv_operands(s["rv"]):
                    p = op_place(o)
                    if p:
                        src_fields |= {e["f"] for e in p["p"] if isinstance(e, dict) and "f" in e}
    R.check("include_dirs" in src_fields and not bad_calls, "R18.a.first", "R18.a.first|order", f.loc(nbb),
            "auto: loop iterates self.include_dirs front to back (slice iterator, no rev/sort/skip)",
            "resolver loop does not iterate the search path in order: source fields %s, reordering calls %s" % (
                sorted(src_fields), bad_calls), fn=f.path)
    fr = follow_result(f, rbb)
    if fr is None:
        R.viol("R18.a.first", "R18.a.first|read-untested", f.loc(rbb), "fs::read result is not matched", fn=f.path)
        return
    # success edge returns without taking another candidate
    succ_reach = f.reachable_from_set(fr["success"])
    R.check(nbb not in succ_reach and bool(succ_reach & set(ok_assign_blocks(f))), "R18.a.first", "R18.a.first|return-on-hit",
            f.loc(rbb), "auto: first readable candidate returns Ok from inside the loop",
            "after a successful fs::read the resolver can continue with further candidates (not first-match)", fn=f.path)
    # the returned name is the path that was read; the content is what was read
    path_local = op_local(rt["args"][0])
    path_srcs = fl.back([path_local])
    ok_name = ok_content = False
    for bb, i, s in f.stmts():
        rv = s["rv"]
        if rv["k"] == "agg" and rv.get("agg") == "tuple" and bb in succ_reach and len(rv["ops"]) == 2:
            n_l, c_l = op_local(rv["ops"][0]), op_local(rv["ops"][1])
            if n_l is not None:
                nb = fl.back([n_l])
                # shares the PathBuf (a named local of type PathBuf) with the read argument
                shared = [x for x in (nb & path_srcs) if "PathBuf" in f.local_ty(x)]
                ok_name = ok_name or bool(shared)
            if c_l is not None and rt["dest"]["l"] in fl.back([c_l]):
                ok_content = True
    R.check(ok_name and ok_content, "R18.a.first", "R18.a.first|name-is-read-path", f.loc(rbb),
            "auto: returned (name, content) = (path passed to fs::read, bytes read)",
            "resolver returns a name/content pair that does not derive from the path actually read "
            "(name ok=%s content ok=%s)" % (ok_name, ok_content), fn=f.path)
