"""Cross-reference of the extractor's site inventories against rustc/clippy's own
opt-in lints on the same tree (advisory completeness check; clippy gives no verdict
on any property)."""
import json
import os
import subprocess
import tempfile

import facts

LINTS = {
    "C05": ["clippy::iter_over_hash_type"],
    "C14": ["clippy::indexing_slicing", "clippy::unwrap_used", "clippy::expect_used", "clippy::panic"],
}


def cross_reference(pid):
    lints = LINTS.get(pid)
    if not lints:
        return None
    env = dict(os.environ)
    env["CARGO_NET_OFFLINE"] = "true"
    env.pop("RUSTUP_TOOLCHAIN", None)
    tgt = os.path.join(facts.CACHE, "target-clippy")
    cmd = ["cargo", "+nightly", "clippy", "--offline", "--lib", "--message-format=json", "--", "-Aclippy::all"]
    for l in lints:
        cmd += ["-W", l]
    env["CARGO_TARGET_DIR"] = tgt
    # force re-lint of the crate
    import glob
    import shutil
    for d in glob.glob(os.path.join(tgt, "debug", ".fingerprint", "chialisp-*")):
        shutil.rmtree(d, ignore_errors=True)
    r = subprocess.run(cmd, cwd=facts.REPO, env=env, capture_output=True, text=True)
    counts = {}
    files = {}
    for ln in r.stdout.splitlines():
        try:
            m = json.loads(ln)
        except Exception:
            continue
        if m.get("reason") != "compiler-message":
            continue
        msg = m["message"]
        code = (msg.get("code") or {}).get("code")
        if code in lints:
            sp = [s for s in msg.get("spans", []) if s.get("is_primary")]
            f = sp[0]["file_name"] if sp else "?"
            if f.startswith("src/tests"):
                continue
            counts[code] = counts.get(code, 0) + 1
            files.setdefault(code, set()).add(f)
    evp = os.path.join(facts.VERIF, "evidence", pid + ".json")
    ev = json.load(open(evp))
    mine = ev["coverage"].get("counts", {})
    out = {"clippy_counts": counts, "clippy_files": {k: len(v) for k, v in files.items()}, "returncode": r.returncode}
    if pid == "C05":
        n = ev["coverage"]["floors"].get("R05.a.hash iteration sites", {}).get("found")
        out["mine"] = {"hash iteration sites": n}
        out["summary"] = "clippy iter_over_hash_type (for-loops only) %s <= my %s type-driven sites" % (
            counts.get("clippy::iter_over_hash_type"), n)
        out["consistent"] = (counts.get("clippy::iter_over_hash_type", 0) <= (n or 0))
    elif pid == "C14":
        inv = mine.get("inventory", {})
        exc = mine.get("excluded (not decided)", {})
        my_index = inv.get("index", 0) + inv.get("bounds", 0) + inv.get("slice", 0) + inv.get("mapindex", 0) + \
            sum(v for k, v in exc.items() if "index" in k.lower() or "slicing" in k.lower())
        my_unwrap = inv.get("unwrap", 0)
        out["mine"] = {"index-like (reachable from front ends)": my_index, "unwrap/expect (reachable)": my_unwrap}
        out["summary"] = "clippy indexing_slicing=%s vs my reachable index-like=%s; clippy unwrap_used+expect_used=%s vs my reachable=%s " \
                         "(clippy counts the whole lib incl. unreachable and cfg(test)-free code)" % (
                             counts.get("clippy::indexing_slicing"), my_index,
                             counts.get("clippy::unwrap_used", 0) + counts.get("clippy::expect_used", 0), my_unwrap)
    return out
