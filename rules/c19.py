"""C19 — the compiled output file is replaced atomically.

Decides, from MIR: (a) the output-path value of every file-to-file entry only
reaches `newer`, `gentle_overwrite` and the return value; (b) the only callers
of filesystem-mutating primitives are the reviewed writer functions; (c)
`atomic_write_file` follows create-sibling-temp -> write_all (checked) ->
persist(output) on every Ok path; (d) `gentle_overwrite` succeeds on the
equal-content branch whatever the write does and otherwise returns the write's
result."""
import json
import os

import runner
from flow import Flow
from mir import callee_of, op_local, op_place, op_const, rv_operands
from paths import follow_result, ok_assign_blocks, must_pass
from report import Report

PID = "C19"
VERIF = os.path.dirname(os.path.dirname(os.path.abspath(__file__)))

# filesystem-mutating primitives (callee path substrings)
W_PRIMS = (
    "std::fs::write", "std::fs::File::create", "std::fs::File::create_new", "std::fs::OpenOptions::open",
    "std::fs::File::options", "std::fs::copy", "std::fs::rename", "std::fs::remove_file",
    "std::fs::remove_dir", "std::fs::hard_link", "std::fs::soft_link", "std::os::unix::fs::symlink",
    "std::fs::set_permissions", "std::fs::File::set_len", "std::fs::create_dir", "std::fs::File::set_",
    "tempfile::", "std::fs::File as std::io::Write", "std::io::BufWriter",
)
TEMP_CREATORS = ("new", "new_in", "tempfile", "tempfile_in", "tempdir", "tempdir_in", "make", "make_in",
                 "with_prefix", "with_prefix_in", "with_suffix", "with_suffix_in", "spooled_tempfile")
STRINGISH = ("str", "String", "Path", "OsStr", "OsString", "[u8]", "Vec<u8>")


def is_w(c):
    return any(w in c for w in W_PRIMS)


def stringish(ty):
    return any(s in ty for s in STRINGISH)


def load_table(name):
    p = os.path.join(VERIF, "tables", name)
    return json.load(open(p)) if os.path.exists(p) else {}


def params_reaching_arg(fn, fl, term, argidx):
    """Parameters (1-based locals) the given call argument derives from,
    through string-ish locals only."""
    l = op_local(term["args"][argidx])
    if l is None:
        return set()
    back = fl.back([l], stop=lambda x: not stringish(fn.local_ty(x)))
    return {x for x in back if 1 <= x <= fn.argc}


def run(tier="quick", replay=None):
    R = Report(PID, tier,
               "Path and flow rules over MIR: (a) the output-path value of each file-to-file entry flows only "
               "to the mtime test, gentle_overwrite and the returned string; (b) who-may-call: the callers of "
               "filesystem-mutating primitives are exactly the reviewed writer functions; (c) protocol of the "
               "atomic writer on every Ok path: NamedTempFile::new_in(parent(output)) -> write_all(data) with "
               "its error edge leading only to Err returns -> persist(output) dominating the Ok return; (d) "
               "gentle_overwrite: equal-content branch returns Ok independent of the write, every other path "
               "returns the writer's Result. Decides the shape that makes replacement atomic, not kernel behaviour.",
               "MIR must-pass-through / dominance path rules + value flow + who-may-call table")
    configs = ["default", "ext"] if tier == "thorough" else ["default", "ext"]
    R.trusted = ["rename(2) atomicity within one filesystem", "tempfile: O_EXCL unique sibling names",
                 "rustc MIR construction", "tables/fs_writers.json (reviewed writer functions)"]
    R.assumptions = ["durability (fsync) is not part of the property", "wasm/ crate cannot be built offline; it has no file output"]
    writers_tbl = load_table("fs_writers.json")
    seen_writers = set()
    progs = {}
    for cfg in configs:
        prog, _, infos = runner.load(cfg, bins=(cfg == "default" and tier == "thorough"))
        R.facts_info.extend(infos)
        progs[cfg] = prog

    # The protocol rules are config independent (util is always compiled): use default.
    prog = progs["default"]
    go = prog.fn("util::gentle_overwrite")
    if go is None:
        R.viol("R19", "R19|anchor-lost|gentle_overwrite", "util", "anchor lost: util::gentle_overwrite")
        return R.finalize()

    # ---- write family: crate-local functions that (transitively) mutate the filesystem ----
    def direct_w(f):
        return any(is_w(callee_of(t) or "") for _, t in f.calls(include_cleanup=True))

    def persists_directly(f):
        return any("NamedTempFile" in (callee_of(t) or "") and "::persist" in (callee_of(t) or "") for _, t in f.calls())

    def closure_over_calls(seed_pred):
        fam = {f.path for f in prog.fns.values() if seed_pred(f)}
        changed = True
        while changed:
            changed = False
            for f in prog.fns.values():
                if f.path in fam:
                    continue
                for _, t in f.calls():
                    if any(c in fam for c in prog.call_targets(t)):
                        fam.add(f.path)
                        changed = True
                        break
        return fam
    write_family = closure_over_calls(direct_w)
    persist_family = closure_over_calls(persists_directly)

    # ---- (c) staging protocol ---------------------------------------------------------
    creators = [(f, bb, t) for f, bb, t in prog.call_sites(
        lambda c: c.startswith("tempfile::") and c.split("::")[-1] in TEMP_CREATORS)]
    persist_sites = prog.call_sites(lambda c: "NamedTempFile" in c and "::persist" in c)
    R.floor("R19.c", "temp-file creation sites", len(creators), 1)
    R.floor("R19.c", "persist sites", len(persist_sites), 1)
    stagers = {}        # fn path -> dict(out_param, tmp_locals, hands_out)
    out_param_of = {}   # fn path -> parameter (1-based) naming the output path, for stagers/committers/writers
    import inline as _inl
    _views = {}

    def view19(f0):
        """f0 with private non-writer helpers of its module (or a private sub-module) inlined; f0's own blocks keep their indices."""
        if f0.path not in _views:
            bp = _inl.default_pred(prog, f0)
            m0 = _inl.module_of(f0)

            def related(g):
                mg = _inl.module_of(g)
                return mg == m0 or mg.startswith(m0 + "::") or m0.startswith(mg + "::")
            _views[f0.path] = _inl.inlined(prog, f0, pred=lambda g: bp(g) and related(g) and g.path not in write_family
                                           and g.path not in persist_family, depth=2)
        return _views[f0.path]
    for f, bb, t in creators:
        f = view19(f)
        fl = Flow(f)
        c = callee_of(t)
        key = "R19.c.sibling|%s" % f.path
        ok_kind = c.endswith("::new_in") or c.endswith("tempfile_in") or c.endswith("::make_in") or c.endswith("_in")
        if not ok_kind or not t["args"]:
            R.viol("R19.c.sibling", key, f.loc(bb),
                   "%s stages its output with %s, which does not create the temporary file in the output's own "
                   "directory (rename across filesystems is not atomic / may fail)" % (f.path, c), fn=f.path)
            continue
        dl = op_local(t["args"][0])
        parent_params = set()
        for pbb, pt in fl.derives_from_call(dl, lambda c: c.endswith("Path::parent")):
            parent_params |= params_reaching_arg(f, fl, pt, 0)
        others = params_reaching_arg(f, fl, t, 0) - parent_params
        good = len(parent_params) == 1 and not others
        R.check(good, "R19.c.sibling", key, f.loc(bb),
                "auto: temp dir = Path::parent(parameter _%s)" % sorted(parent_params),
                "temporary file directory in %s does not derive from Path::parent(<one path parameter>) (parent params=%s, "
                "other params=%s): staging elsewhere breaks atomic rename" % (f.path, sorted(parent_params), sorted(others)),
                fn=f.path)
        if not good:
            continue
        outp = next(iter(parent_params))
        out_param_of[f.path] = outp
        tmp_locals = fl.forward([t["dest"]["l"]])
        oks = ok_assign_blocks(f)
        # hand-out points: persist on the temp, or an Ok/Some return carrying the temp
        handout = []
        for b2, t2 in f.calls():
            if "::persist" in (callee_of(t2) or "") and op_local(t2["args"][0]) in tmp_locals:
                handout.append(b2)
        returns_tmp = False
        for b2, i2, s2 in f.stmts():
            if s2["pl"]["l"] == 0 and not s2["pl"]["p"] and any(op_local(o) in tmp_locals for o in rv_operands(s2["rv"])):
                if "NamedTempFile" in f.local_ty(0):
                    handout.append(b2)
                    returns_tmp = True
        key = "R19.c.write|%s" % f.path
        if not handout:
            R.viol("R19.c.write", key, f.loc(bb), "%s creates a temporary file that is neither persisted nor returned" % f.path, fn=f.path)
            continue
        fr_c = follow_result(f, bb)
        starts = fr_c["success"] if fr_c else [t.get("target")]
        w_success = []
        data_params = set()
        bad_write = None
        for b2, t2 in f.calls():
            c2 = callee_of(t2) or ""
            if not (c2.endswith("::write_all") or c2.endswith("io::Write>::write")):
                continue
            if op_local(t2["args"][0]) not in tmp_locals:
                continue
            data_params |= params_reaching_arg(f, fl, t2, 1)
            fr = follow_result(f, b2)
            if fr is None:
                bad_write = "the result of write_all is not tested (`?`/match) before the file is handed on"
                continue
            if f.reachable_from_set(fr["failure"]) & set(handout):
                bad_write = "the failure edge of write_all can still reach persist / the Ok return"
                continue
            if c2.endswith("io::Write>::write"):
                bad_write = "uses Write::write (may write only part of the data) instead of write_all"
                continue
            w_success.extend(fr["success"])
        passes = bool(w_success) and all(must_pass(f, s, handout, w_success) for s in starts if s is not None)
        R.check(passes and not bad_write and bool(data_params), "R19.c.write", key, f.loc(bb),
                "auto: every path from temp creation to %s passes write_all(data from param %s)'s success edge" % (
                    "persist" if not returns_tmp else "persist / returning the staged file", sorted(data_params)),
                "%s can hand on a temporary file that was not completely written: %s" % (
                    f.path, bad_write or ("a path from creation to persist/return avoids the checked write_all"
                                          if data_params else "written data does not derive from a parameter")), fn=f.path)
        stagers[f.path] = {"out_param": outp, "returns_tmp": returns_tmp, "data_params": sorted(data_params)}
        # nothing else mutates the filesystem in a stager
        for b2, t2 in f.calls():
            c2 = callee_of(t2) or ""
            if is_w(c2) and not any(x in c2 for x in ("_in", "::write_all", "::persist", "NamedTempFile::<F>::path",
                                                      "::as_file", "::flush", "::sync_all", "::sync_data")):
                R.viol("R19.c.extra", "R19.c.extra|%s|%s" % (f.path, c2), f.loc(b2),
                       "%s performs an additional filesystem mutation %s besides temp-create/write/persist" % (f.path, c2), fn=f.path)

    writer_fns = set()       # functions that persist (directly)
    for f, bb, t in persist_sites:
        fl = Flow(f)
        writer_fns.add(f.path)
        key = "R19.c.order|%s" % f.path
        # target path: exactly one parameter
        outp = params_reaching_arg(f, fl, t, 1)
        R.check(len(outp) == 1, "R19.c.persist-target", "R19.c.persist-target|%s" % f.path, f.loc(bb),
                "auto: persist target derives from parameter _%s" % sorted(outp),
                "persist target in %s derives from parameters %s, expected exactly one (the output path)" % (f.path, sorted(outp)),
                fn=f.path)
        if len(outp) == 1:
            po = next(iter(outp))
            if f.path in out_param_of and out_param_of[f.path] != po:
                R.viol("R19.c.same-path", "R19.c.same-path|%s" % f.path, f.loc(bb),
                       "%s stages next to parameter _%d but persists onto parameter _%d" % (f.path, out_param_of[f.path], po), fn=f.path)
            out_param_of[f.path] = po
        # provenance of the file being persisted
        recv = op_local(t["args"][0])
        back = fl.back([recv])
        prov = None
        if f.path in stagers:
            prov = "created and written in this function"
        else:
            for l in back:
                for b2, t2 in fl.call_defs.get(l, []):
                    if callee_of(t2) in stagers and stagers[callee_of(t2)]["returns_tmp"]:
                        prov = "from stager %s" % callee_of(t2)
                        # same output path for staging and committing
                        sp = params_reaching_arg(f, fl, t2, stagers[callee_of(t2)]["out_param"] - 1)
                        if len(outp) == 1 and sp != outp:
                            R.viol("R19.c.same-path", "R19.c.same-path|%s" % f.path, f.loc(bb),
                                   "%s stages next to %s but persists onto %s" % (f.path, sorted(sp), sorted(outp)), fn=f.path)
            if prov is None:
                tparams = [x for x in back if 1 <= x <= f.argc and "NamedTempFile" in f.local_ty(x)]
                if tparams:
                    # committer: every caller must pass a staged file for the same output path
                    q = tparams[0]
                    callers = [(g, cb, ct) for g, cb, ct in prog.call_sites(lambda c: c == f.path)]
                    okc = bool(callers)
                    why = "no caller"
                    for g, cb, ct in callers:
                        gfl = Flow(g)
                        al = op_local(ct["args"][q - 1])
                        found = False
                        for l in gfl.back([al]) if al is not None else []:
                            for b3, t3 in gfl.call_defs.get(l, []):
                                c3 = callee_of(t3)
                                if c3 in stagers and stagers[c3]["returns_tmp"]:
                                    found = True
                                    if len(outp) == 1:
                                        a_stage = params_reaching_arg(g, gfl, t3, stagers[c3]["out_param"] - 1)
                                        a_commit = params_reaching_arg(g, gfl, ct, next(iter(outp)) - 1)
                                        if a_stage != a_commit:
                                            okc = False
                                            why = "%s stages next to %s but commits onto %s" % (g.path, sorted(a_stage), sorted(a_commit))
                        if not found:
                            okc = False
                            why = "%s passes a file that does not come from a stager" % g.path
                    if okc:
                        prov = "parameter _%d, staged by every caller (%d)" % (q, len(callers))
                    else:
                        R.viol("R19.c.order", key, f.loc(bb), "%s persists a temporary file of unknown provenance: %s" % (f.path, why), fn=f.path)
                        continue
        if prov is None:
            R.viol("R19.c.order", key, f.loc(bb),
                   "%s persists a file that is not a temp file created next to the output and fully written first" % f.path, fn=f.path)
            continue
        # Ok only through persist success
        oks = ok_assign_blocks(f)
        fr = follow_result(f, bb)
        direct_ret = t["dest"]["l"] == 0
        cond3 = direct_ret or (fr is not None and all(must_pass(f, 0, [o], fr["success"]) for o in oks)
                               and not (f.reachable_from_set(fr["failure"]) & set(oks)))
        R.check(cond3, "R19.c.order", key, f.loc(bb),
                "auto: persisted file is %s; Ok is returned only through persist's success edge" % prov,
                "%s can return Ok although persist failed (its result is dropped or its failure edge reaches Ok)" % f.path, fn=f.path)
    R.counts["stagers"] = stagers
    R.counts["persisting functions"] = sorted(writer_fns)

    # ---- (d) gentle_overwrite contract ---------------------------------------------
    # helpers that are not themselves writers (e.g. a split-out "same contents?" predicate) are inlined, so that extracting
    # or folding back such a helper does not change what the contract rules see
    import inline
    base_pred = inline.default_pred(prog, go)
    f = inline.inlined(prog, go, pred=lambda g: base_pred(g) and g.path not in write_family and g.path not in persist_family, depth=2)
    fl = Flow(f)
    from paths import err_assign_blocks
    errb = set(err_assign_blocks(f))
    okb = set(ok_assign_blocks(f))
    rets = f.return_blocks()
    steps = []       # write steps: calls into the write family
    for bb, t in f.calls():
        tg = prog.call_targets(t)
        if any(c in write_family for c in tg) or is_w(callee_of(t) or ""):
            steps.append((bb, t))
    persisting_steps = [(bb, t) for bb, t in steps if any(c in persist_family for c in prog.call_targets(t))]
    R.floor("R19.d", "write steps in gentle_overwrite", len(steps), 1, "%s:%d" % (f.file, f.line))
    R.floor("R19.d", "persisting steps in gentle_overwrite", len(persisting_steps), 1, "%s:%d" % (f.file, f.line))
    eqs = [(bb, t) for bb, t in f.calls() if "PartialEq" in (callee_of(t) or "") and (callee_of(t) or "").endswith("::eq")
           or (t.get("callee") or "").endswith("PartialEq::eq")]
    R.floor("R19.d", "content equality test", len(eqs), 1, "%s:%d" % (f.file, f.line))
    go_out_param = None
    for bb, t in steps:
        for w in prog.call_targets(t):
            if w in out_param_of and out_param_of[w] - 1 < len(t["args"]):
                ps = params_reaching_arg(f, fl, t, out_param_of[w] - 1)
                if len(ps) == 1:
                    p = next(iter(ps))
                    R.check(go_out_param in (None, p), "R19.d.same-target", "R19.d.same-target|%s" % w, f.loc(bb),
                            "auto: %s's output argument is gentle_overwrite's parameter _%d" % (w, p),
                            "write steps in gentle_overwrite target different parameters", fn=f.path)
                    go_out_param = p
                else:
                    R.viol("R19.d.same-target", "R19.d.same-target|%s" % w, f.loc(bb),
                           "output argument of %s does not derive from exactly one parameter" % w, fn=f.path)
    if eqs and steps:
        ebb, et = eqs[0]
        sw = None
        neg = False
        # the branch that decides on the comparison: the first switch whose discriminant is the equality result, possibly
        # copied (returned from a helper, stored in a local) and negated on the way
        state = {et["dest"]["l"]: False}
        changed = True
        while changed:
            changed = False
            for _, _, st in f.stmts():
                if st["pl"]["p"]:
                    continue
                rv = st["rv"]
                src_l = None
                flip = False
                if rv["k"] == "use":
                    src_l = op_local(rv["op"])
                elif rv["k"] == "un" and rv["op"] == "Not":
                    src_l = op_local(rv["a"])
                    flip = True
                if src_l in state and st["pl"]["l"] not in state:
                    state[st["pl"]["l"]] = state[src_l] != flip
                    changed = True
        for b2 in sorted(f.reachable(ebb), key=lambda b: len(f.dominators().get(b, ()))):
            t2 = f.term(b2)
            if t2["k"] == "switch" and op_local(t2["discr"]) in state and f.local_ty(op_local(t2["discr"])) == "bool":
                sw, neg = t2, state[op_local(t2["discr"])]
                break
        if sw is None:
            R.viol("R19.d", "R19.d|anchor-lost|eq-switch", f.loc(ebb), "anchor lost: equality result is not branched on", fn=f.path)
        else:
            arms = dict((v, tgt) for v, tgt in sw["arms"])
            false_b = arms.get(0, sw["otherwise"])
            true_b = sw["otherwise"] if 0 in arms else arms.get(1)
            if neg:
                false_b, true_b = true_b, false_b
            can_reach_eq = {b for b in range(len(f.blocks)) if ebb in f.reachable(b)}
            # before the comparison: no write step may fail the call
            pre_bad = []
            for bb, t in steps:
                if bb not in can_reach_eq:
                    continue
                fr = follow_result(f, bb)
                if t["dest"]["l"] == 0 or (fr is not None and f.reachable_from_set(fr["failure"]) & errb):
                    pre_bad.append("%s at %s" % (callee_of(t), f.loc(bb)))
            # equal branch
            eq_region = f.reachable(true_b, avoid=[false_b])
            only_eq = eq_region - f.reachable(false_b)
            all_ok = must_pass(f, true_b, rets, okb & eq_region)
            leaks = bool(errb & only_eq)
            for bb, t in steps:
                if bb in only_eq:
                    if t["dest"]["l"] == 0:
                        leaks = True
                    fr = follow_result(f, bb)
                    if fr is not None and f.reachable_from_set(fr["failure"]) & errb:
                        leaks = True
            n_eq_steps = len([1 for bb, _ in steps if bb in only_eq])
            R.check(all_ok and not leaks and not pre_bad, "R19.d.equal", "R19.d.equal|ok-regardless", f.loc(ebb),
                    "auto: no fallible write step precedes the same-contents test; on equal contents every path returns "
                    "Ok(()) and the result of the %d write step(s) attempted there is discarded" % n_eq_steps,
                    "gentle_overwrite can fail although the new contents equal the old: every equal-branch path assigns Ok=%s, "
                    "a write failure is propagated inside the equal branch=%s, fallible write steps BEFORE the comparison whose "
                    "error is returned=%s — the call must succeed even when the file cannot be rewritten" % (all_ok, leaks, pre_bad),
                    fn=f.path)
            # differs / unreadable: result is the persisting step's (or a propagated write-step failure)
            other_starts = [false_b]
            sw_block = next(b for b in range(len(f.blocks)) if f.blocks[b]["t"] is sw)

            def decision_values(start):
                """Values the deciding bool can have at the switch on paths from `start` that do not run the comparison
                (constant propagation of `decision = false` in a failure arm through copies / negation)."""
                out = set()
                seen = set()
                todo = [(start, None)]
                while todo:
                    b, val = todo.pop()
                    if (b, val) in seen:
                        continue
                    seen.add((b, val))
                    if b == ebb:
                        out.add("any")
                        continue
                    for st in f.blocks[b]["s"]:
                        if st["pl"]["p"] or st["pl"]["l"] not in state:
                            continue
                        rv = st["rv"]
                        if rv["k"] == "use" and rv["op"]["k"] == "const":
                            c = rv["op"]["c"]
                            bit = bool(c.get("bool")) if "bool" in c else bool(int(c.get("int", 0)))
                            val = bit != state[st["pl"]["l"]]      # normalised to "comparison said equal"
                    if b == sw_block:
                        out.add("any" if val is None else val)
                        continue
                    for nx in f.succ(b):
                        todo.append((nx, val))
                return out
            for bb, t in f.calls():
                if (callee_of(t) or "").endswith("fs::read_to_string") or (callee_of(t) or "").endswith("fs::read"):
                    fr = follow_result(f, bb)
                    if fr:
                        for fb in fr["failure"]:
                            dv = decision_values(fb)
                            if dv == {False}:
                                other_starts.append(false_b)       # unreadable => decided "not equal" => same as differs
                            elif dv == {True}:
                                other_starts.append(true_b)        # unreadable treated as equal: must still write (checked below)
                            else:
                                other_starts.append(fb)
            direct = [bb for bb, t in persisting_steps if t["dest"]["l"] == 0 and not t["dest"]["p"]]
            # the write may also be done once before the branch and its Result returned later: `_0 = move write_result`
            pdests = {t["dest"]["l"] for _, t in persisting_steps if not t["dest"]["p"]}
            for b3, _, st in f.stmts():
                if st["pl"]["l"] == 0 and not st["pl"]["p"] and st["rv"]["k"] == "use":
                    sl = op_local(st["rv"]["op"])
                    if sl is not None and (sl in pdests or (fl.back_pure([sl]) & pdests and
                                                            all(s4["rv"]["k"] == "use" for x in fl.back_pure([sl]) - pdests
                                                                for _, _, s4 in f.stmts() if fl.node(s4["pl"]) == x))):
                        # only counts when the persisting step lies on every path to this return
                        if any(must_pass(f, 0, [b3], [pb]) for pb, _ in persisting_steps):
                            direct.append(b3)
            # errors propagated from write steps are legitimate ends too
            prop = set()
            for bb, t in steps:
                fr = follow_result(f, bb)
                if fr is not None:
                    prop |= (f.reachable_from_set(fr["failure"]) & errb)
            okp = bool(direct) and all(must_pass(f, s, rets, set(direct) | prop) for s in other_starts)
            after_ok = any(f.reachable(d) & okb for d in direct)
            R.check(okp and not after_ok, "R19.d.differs", "R19.d.differs|propagates", f.loc(ebb),
                    "auto: on changed/unreadable content every path returns the persisting step's Result (or a propagated "
                    "staging error)",
                    "when contents differ (or the old file is unreadable) gentle_overwrite does not return the persisting "
                    "step's result on every path (silent no-write or swallowed failure)", fn=f.path)

    # ---- (a) output-path flow in every caller of gentle_overwrite -------------------
    for cfg, pg in progs.items():
        g = pg.fn("util::gentle_overwrite")
        callers = pg.call_sites(lambda c: c == "util::gentle_overwrite")
        callers = [(f2, bb, t) for f2, bb, t in callers if f2.path != "util::gentle_overwrite"]
        R.floor("R19.a", "callers of gentle_overwrite [%s]" % cfg, len(callers), 1 if cfg == "default" else 2)
        if go_out_param is None:
            continue
        for f2, bb, t in callers:
            fl2 = Flow(f2)
            l = op_local(t["args"][go_out_param - 1])
            if l is None:
                R.viol("R19.a", "R19.a|%s|const-path" % f2.path, f2.loc(bb), "output path is a constant", fn=f2.path)
                continue
            aliases = fl2.back([l], stop=lambda x: not stringish(f2.local_ty(x)))
            aliases = {x for x in aliases if stringish(f2.local_ty(x))}
            reach = fl2.forward(list(aliases), stop=lambda x: not stringish(f2.local_ty(x)))
            bad = []
            nsites = 0
            for bb2, t2 in f2.calls():
                used = [a for a in t2["args"] if op_local(a) in reach]
                if not used:
                    continue
                nsites += 1
                c = callee_of(t2) or "<indirect>"
                if c == "util::gentle_overwrite" or c.endswith("dep_util::newer"):
                    continue
                if t2.get("target_local") or t2.get("callee_local"):
                    bad.append((bb2, c, "crate-local function other than newer/gentle_overwrite"))
                elif is_w(c) or "std::fs::" in c or "std::process" in c:
                    bad.append((bb2, c, "filesystem primitive"))
            key = "R19.a|%s" % f2.path
            if bad:
                for bb2, c, why in bad:
                    R.viol("R19.a", key + "|" + c, f2.loc(bb2),
                           "in %s the output path also reaches %s (%s): the output file may be touched outside the "
                           "atomic replace protocol" % (f2.path, c, why), fn=f2.path)
            else:
                R.ob("R19.a", key, f2.loc(bb), "auto: output path reaches only newer/gentle_overwrite/pure std "
                     "string functions (%d call sites examined) [%s]" % (nsites, cfg), fn=f2.path)

    # ---- (b) who may call filesystem-mutating primitives ------------------------------
    for cfg, pg in progs.items():
        for f2 in pg.fns.values():
            for bb, t in f2.calls(include_cleanup=True):
                c = callee_of(t) or ""
                if not is_w(c):
                    continue
                root = f2.root
                seen_writers.add(root)
                ent = writers_tbl.get(root)
                key = "R19.b|%s|%s" % (root, c.split("::")[-1])
                if root in writer_fns or root in stagers:
                    R.ob("R19.b", key, f2.loc(bb), "auto: stager/persister of the atomic replace protocol (checked by R19.c) [%s]" % cfg, fn=root)
                elif ent:
                    R.ob("R19.b", key, f2.loc(bb), "table: %s — %s" % (ent["class"], ent["reason"]), fn=root)
                else:
                    R.viol("R19.b", key, f2.loc(bb),
                           "%s calls the filesystem-mutating primitive %s but is not a reviewed writer "
                           "(tables/fs_writers.json): only the atomic writer may modify compiler output files" % (root, c),
                           fn=root)
    for k in writers_tbl:
        if k not in seen_writers:
            R.stale_table.append("fs_writers.json: " + k)
    return R.finalize()
