"""C19 — the compiled output file is replaced atomically.

Decides, from MIR: (a) the output-path value of every file-to-file entry only
reaches `newer`, `gentle_overwrite` and the return value; (b) the only callers
of filesystem-mutating primitives are the reviewed writer functions; (c)
`atomic_write_file` follows create-sibling-temp -> write_all (checked) ->
persist(output) on every Ok path; (d) `gentle_overwrite` succeeds on the
equal-content branch whatever the write does and otherwise returns the write's
result."""
import json
import os

import runner
from flow import Flow
from mir import callee_of, op_local, op_place, op_const
from paths import follow_result, ok_assign_blocks, must_pass
from report import Report

PID = "C19"
VERIF = os.path.dirname(os.path.dirname(os.path.abspath(__file__)))

# filesystem-mutating primitives (callee path substrings)
W_PRIMS = (
    "std::fs::write", "std::fs::File::create", "std::fs::File::create_new", "std::fs::OpenOptions::open",
    "std::fs::File::options", "std::fs::copy", "std::fs::rename", "std::fs::remove_file",
    "std::fs::remove_dir", "std::fs::hard_link", "std::fs::soft_link", "std::os::unix::fs::symlink",
    "std::fs::set_permissions", "std::fs::File::set_len", "std::fs::create_dir", "std::fs::File::set_",
    "tempfile::", "std::fs::File as std::io::Write", "std::io::BufWriter",
)
TEMP_CREATORS = ("new", "new_in", "tempfile", "tempfile_in", "tempdir", "tempdir_in", "make", "make_in",
                 "with_prefix", "with_prefix_in", "with_suffix", "with_suffix_in", "spooled_tempfile")
STRINGISH = ("str", "String", "Path", "OsStr", "OsString", "[u8]", "Vec<u8>")


def is_w(c):
    return any(w in c for w in W_PRIMS)


def stringish(ty):
    return any(s in ty for s in STRINGISH)


def load_table(name):
    p = os.path.join(VERIF, "tables", name)
    return json.load(open(p)) if os.path.exists(p) else {}


def params_reaching_arg(fn, fl, term, argidx):
    """Parameters (1-based locals) the given call argument derives from,
    through string-ish locals only."""
    l = op_local(term["args"][argidx])
    if l is None:
        return set()
    back = fl.back([l], stop=lambda x: not stringish(fn.local_ty(x)))
    return {x for x in back if 1 <= x <= fn.argc}


def run(tier="quick", replay=None):
    R = Report(PID, tier,
               "Path and flow rules over MIR: (a) the output-path value of each file-to-file entry flows only "
               "to the mtime test, gentle_overwrite and the returned string; (b) who-may-call: the callers of "
               "filesystem-mutating primitives are exactly the reviewed writer functions; (c) protocol of the "
               "atomic writer on every Ok path: NamedTempFile::new_in(parent(output)) -> write_all(data) with "
               "its error edge leading only to Err returns -> persist(output) dominating the Ok return; (d) "
               "gentle_overwrite: equal-content branch returns Ok independent of the write, every other path "
               "returns the writer's Result. Decides the shape that makes replacement atomic, not kernel behaviour.",
               "MIR must-pass-through / dominance path rules + value flow + who-may-call table")
    configs = ["default", "ext"] if tier == "thorough" else ["default", "ext"]
    R.trusted = ["rename(2) atomicity within one filesystem", "tempfile: O_EXCL unique sibling names",
                 "rustc MIR construction", "tables/fs_writers.json (reviewed writer functions)"]
    R.assumptions = ["durability (fsync) is not part of the property", "wasm/ crate cannot be built offline; it has no file output"]
    writers_tbl = load_table("fs_writers.json")
    seen_writers = set()
    progs = {}
    for cfg in configs:
        prog, _, infos = runner.load(cfg, bins=(cfg == "default" and tier == "thorough"))
        R.facts_info.extend(infos)
        progs[cfg] = prog

    # The protocol rules are config independent (util is always compiled): use default.
    prog = progs["default"]
    go = prog.fn("util::gentle_overwrite")
    if go is None:
        R.viol("R19", "R19|anchor-lost|gentle_overwrite", "util", "anchor lost: util::gentle_overwrite")
        return R.finalize()

    # ---- (c) the atomic writer: the function(s) calling persist -------------------
    persist_sites = prog.call_sites(lambda c: "NamedTempFile" in c and "::persist" in c)
    R.floor("R19.c", "persist sites", len(persist_sites), 1)
    writer_fns = sorted({f.path for f, _, _ in persist_sites})
    out_param_of = {}
    for wpath in writer_fns:
        f = prog.fn(wpath)
        fl = Flow(f)
        site = "%s:%d" % (f.file, f.line)
        creates = [(bb, t) for bb, t in f.calls() if (callee_of(t) or "").startswith("tempfile::")
                   and callee_of(t).split("::")[-1] in TEMP_CREATORS]
        writes = [(bb, t) for bb, t in f.calls() if (callee_of(t) or "").endswith("::write_all")
                  or (callee_of(t) or "").endswith("io::Write>::write")]
        persists = [(bb, t) for bb, t in f.calls() if "::persist" in (callee_of(t) or "")]
        oks = ok_assign_blocks(f)
        R.floor("R19.c", "%s temp-create" % wpath, len(creates), 1, site)
        R.floor("R19.c", "%s write_all" % wpath, len(writes), 1, site)
        R.floor("R19.c", "%s Ok returns" % wpath, len(oks), 1, site)
        if not (creates and writes and persists and oks):
            continue
        # persist: path argument derives from exactly one parameter = the output path
        for bb, t in persists:
            outp = params_reaching_arg(f, fl, t, 1)
            R.check(len(outp) == 1, "R19.c.persist-target", "R19.c.persist-target|%s" % wpath, f.loc(bb),
                    "auto: persist target derives from parameter _%s" % sorted(outp),
                    "persist target in %s derives from parameters %s, expected exactly one (the output path)" % (
                        wpath, sorted(outp)), fn=wpath)
            if len(outp) == 1:
                out_param_of[wpath] = next(iter(outp))
        outp = out_param_of.get(wpath)
        if outp is None:
            continue
        # temp file is created in the output's own directory
        for bb, t in creates:
            c = callee_of(t)
            ok_kind = c.endswith("::new_in") or c.endswith("tempfile_in") or c.endswith("::make_in")
            key = "R19.c.sibling|%s" % wpath
            if not ok_kind or not t["args"]:
                R.viol("R19.c.sibling", key, f.loc(bb),
                       "%s stages its output with %s, which does not create the temporary file in the "
                       "output's directory (rename across filesystems is not atomic / may fail)" % (wpath, c), fn=wpath)
                continue
            dl = op_local(t["args"][0])
            via_parent = [1 for _, tt in fl.derives_from_call(dl, lambda c: c.endswith("Path::parent"))]
            parent_ok = False
            for pbb, pt in fl.derives_from_call(dl, lambda c: c.endswith("Path::parent")):
                if outp in params_reaching_arg(f, fl, pt, 0):
                    parent_ok = True
            others = params_reaching_arg(f, fl, t, 0) - {outp}
            R.check(parent_ok and not others, "R19.c.sibling", key, f.loc(bb),
                    "auto: temp dir = Path::parent(output path param _%d)" % outp,
                    "temporary file directory in %s does not derive from Path::parent(<output path>) "
                    "(via_parent=%s, other params=%s): staging elsewhere breaks atomic rename" % (
                        wpath, bool(via_parent), sorted(others)), fn=wpath)
        tmp_locals = set()
        for bb, t in creates:
            tmp_locals |= fl.forward([t["dest"]["l"]])
        # write_all: receiver is the temp file, data derives from a parameter, failure -> Err only
        data_params = set()
        w_success = []
        for bb, t in writes:
            recv = op_local(t["args"][0])
            key = "R19.c.write|%s" % wpath
            if recv not in tmp_locals:
                R.info("write_all in %s on a non-temp receiver ignored" % wpath)
                continue
            dps = params_reaching_arg(f, fl, t, 1)
            data_params |= dps
            fr = follow_result(f, bb)
            if fr is None:
                R.viol("R19.c.write", key, f.loc(bb),
                       "result of write_all in %s is not tested (`?`/match) before the file is persisted: "
                       "a short or failed write would be renamed over the output" % wpath, fn=wpath)
                continue
            bad = f.reachable_from_set(fr["failure"]) & set(oks)
            R.check(not bad and bool(dps), "R19.c.write", key, f.loc(bb),
                    "auto: write_all(data from param %s) error edge reaches only Err returns" % sorted(dps),
                    "write_all in %s: %s" % (wpath, "its failure edge can reach an Ok return" if bad
                                             else "written data does not derive from a parameter"), fn=wpath)
            w_success.extend(fr["success"])
        R.floor("R19.c", "%s checked write_all on temp" % wpath, len(w_success), 1, site)
        # persist is only reachable through write success; Ok only through persist success
        for bb, t in persists:
            recv = op_local(t["args"][0])
            key = "R19.c.order|%s" % wpath
            cond1 = recv in tmp_locals
            cond2 = bool(w_success) and must_pass(f, 0, [bb], w_success)
            fr = follow_result(f, bb)
            cond3 = fr is not None and all(must_pass(f, 0, [o], fr["success"]) for o in oks) \
                and not (f.reachable_from_set(fr["failure"]) & set(oks))
            R.check(cond1 and cond2 and cond3, "R19.c.order", key, f.loc(bb),
                    "auto: entry -> write_all success -> persist(temp, output) success -> Ok, on every path",
                    "protocol order broken in %s: persist receiver is the temp file=%s; every path to persist "
                    "passes write_all's success edge=%s; every Ok return passes persist's success edge=%s" % (
                        wpath, cond1, cond2, cond3), fn=wpath)
        # nothing else mutates the filesystem in the writer
        for bb, t in f.calls():
            c = callee_of(t) or ""
            if is_w(c) and not any(x in c for x in ("::new_in", "::write_all", "::persist", "NamedTempFile::<F>::path",
                                                    "::as_file", "::flush", "::sync_all", "::sync_data")):
                R.viol("R19.c.extra", "R19.c.extra|%s|%s" % (wpath, c), f.loc(bb),
                       "%s performs an additional filesystem mutation %s besides temp-create/write/persist" % (wpath, c),
                       fn=wpath)
        R.counts["writer:" + wpath] = {"creates": len(creates), "writes": len(writes), "persists": len(persists),
                                       "output_param": outp, "data_params": sorted(data_params)}

    # ---- (d) gentle_overwrite contract ---------------------------------------------
    f = go
    fl = Flow(f)
    aw_calls = [(bb, t) for bb, t in f.calls() if callee_of(t) in writer_fns]
    R.floor("R19.d", "calls to the atomic writer", len(aw_calls), 2, "%s:%d" % (f.file, f.line))
    eqs = [(bb, t) for bb, t in f.calls() if "PartialEq" in (callee_of(t) or "") and (callee_of(t) or "").endswith("::eq")
           or (t.get("callee") or "").endswith("PartialEq::eq")]
    R.floor("R19.d", "content equality test", len(eqs), 1, "%s:%d" % (f.file, f.line))
    go_out_param = None
    for bb, t in aw_calls:
        w = callee_of(t)
        if w in out_param_of:
            ps = params_reaching_arg(f, fl, t, out_param_of[w] - 1)
            if len(ps) == 1:
                p = next(iter(ps))
                R.check(go_out_param in (None, p), "R19.d.same-target", "R19.d.same-target|%d" % bb, f.loc(bb),
                        "auto: writer's output argument is gentle_overwrite's parameter _%d" % p,
                        "the two writes in gentle_overwrite target different parameters", fn=f.path)
                go_out_param = p
            else:
                R.viol("R19.d.same-target", "R19.d.same-target|%d" % bb, f.loc(bb),
                       "output argument of the atomic writer does not derive from exactly one parameter", fn=f.path)
    if eqs and aw_calls:
        ebb, et = eqs[0]
        # the switch on the eq result
        sw = None
        nb = et.get("target")
        if nb is not None and f.term(nb)["k"] == "switch" and op_local(f.term(nb)["discr"]) == et["dest"]["l"]:
            sw = f.term(nb)
        if sw is None:
            R.viol("R19.d", "R19.d|anchor-lost|eq-switch", f.loc(ebb), "anchor lost: equality result is not branched on", fn=f.path)
        else:
            arms = dict((v, tgt) for v, tgt in sw["arms"])
            false_b = arms.get(0, sw["otherwise"])
            true_b = sw["otherwise"] if 0 in arms else arms.get(1)
            rets = f.return_blocks()
            # equal branch: every path to return assigns _0 = Ok and _0 does not derive from the write
            eq_region = f.reachable(true_b, avoid=[false_b])
            eq_calls = [(bb, t) for bb, t in aw_calls if bb in eq_region and bb not in f.reachable(false_b)]
            ok_blocks = set(ok_assign_blocks(f))
            all_ok = must_pass(f, true_b, rets, ok_blocks & eq_region)
            # does _0 in the equal region take the writer's result?
            leaks = False
            for bb, t in eq_calls:
                if t["dest"]["l"] == 0:
                    leaks = True
                fr = follow_result(f, bb)
                if fr is not None:
                    # a tested result whose failure edge leads to an Err return = failure propagated
                    from paths import err_assign_blocks
                    if f.reachable_from_set(fr["failure"]) & set(err_assign_blocks(f)):
                        leaks = True
            # any `?`/from_residual inside the equal-only region
            from paths import err_assign_blocks
            only_eq = eq_region - f.reachable(false_b)
            if set(err_assign_blocks(f)) & only_eq:
                leaks = True
            R.check(all_ok and not leaks, "R19.d.equal", "R19.d.equal|ok-regardless", f.loc(ebb),
                    "auto: equal-content branch: every path returns Ok(()); the write's result is discarded (%d write(s) attempted)" % len(eq_calls),
                    "equal-content branch of gentle_overwrite can fail: all paths assign Ok=%s, write failure "
                    "propagated=%s — the call must succeed even when the file cannot be rewritten" % (all_ok, leaks),
                    fn=f.path)
            # not-equal / unreadable: _0 is the writer's Result on every path
            other_starts = [false_b]
            # also the unreadable-file path: read_to_string failure
            rd = [(bb, t) for bb, t in f.calls() if (callee_of(t) or "").endswith("fs::read_to_string")]
            for bb, t in rd:
                fr = follow_result(f, bb)
                if fr:
                    other_starts.extend(fr["failure"])
            direct = [bb for bb, t in aw_calls if t["dest"]["l"] == 0 and not t["dest"]["p"]]
            okp = all(must_pass(f, s, rets, direct) for s in other_starts) and bool(direct)
            # and no Ok assignment after it
            after_ok = any(f.reachable(d) & ok_blocks for d in direct)
            R.check(okp and not after_ok, "R19.d.differs", "R19.d.differs|propagates", f.loc(ebb),
                    "auto: on changed/unreadable content every path returns the atomic writer's Result",
                    "when contents differ (or the old file is unreadable) gentle_overwrite does not return the "
                    "atomic writer's result on every path (silent no-write or swallowed failure)", fn=f.path)

    # ---- (a) output-path flow in every caller of gentle_overwrite -------------------
    for cfg, pg in progs.items():
        g = pg.fn("util::gentle_overwrite")
        callers = pg.call_sites(lambda c: c == "util::gentle_overwrite")
        callers = [(f2, bb, t) for f2, bb, t in callers if f2.path != "util::gentle_overwrite"]
        R.floor("R19.a", "callers of gentle_overwrite [%s]" % cfg, len(callers), 1 if cfg == "default" else 2)
        if go_out_param is None:
            continue
        for f2, bb, t in callers:
            fl2 = Flow(f2)
            l = op_local(t["args"][go_out_param - 1])
            if l is None:
                R.viol("R19.a", "R19.a|%s|const-path" % f2.path, f2.loc(bb), "output path is a constant", fn=f2.path)
                continue
            aliases = fl2.back([l], stop=lambda x: not stringish(f2.local_ty(x)))
            aliases = {x for x in aliases if stringish(f2.local_ty(x))}
            reach = fl2.forward(list(aliases), stop=lambda x: not stringish(f2.local_ty(x)))
            bad = []
            nsites = 0
            for bb2, t2 in f2.calls():
                used = [a for a in t2["args"] if op_local(a) in reach]
                if not used:
                    continue
                nsites += 1
                c = callee_of(t2) or "<indirect>"
                if c == "util::gentle_overwrite" or c.endswith("dep_util::newer"):
                    continue
                if t2.get("target_local") or t2.get("callee_local"):
                    bad.append((bb2, c, "crate-local function other than newer/gentle_overwrite"))
                elif is_w(c) or "std::fs::" in c or "std::process" in c:
                    bad.append((bb2, c, "filesystem primitive"))
            key = "R19.a|%s" % f2.path
            if bad:
                for bb2, c, why in bad:
                    R.viol("R19.a", key + "|" + c, f2.loc(bb2),
                           "in %s the output path also reaches %s (%s): the output file may be touched outside the "
                           "atomic replace protocol" % (f2.path, c, why), fn=f2.path)
            else:
                R.ob("R19.a", key, f2.loc(bb), "auto: output path reaches only newer/gentle_overwrite/pure std "
                     "string functions (%d call sites examined) [%s]" % (nsites, cfg), fn=f2.path)

    # ---- (b) who may call filesystem-mutating primitives ------------------------------
    for cfg, pg in progs.items():
        for f2 in pg.fns.values():
            for bb, t in f2.calls(include_cleanup=True):
                c = callee_of(t) or ""
                if not is_w(c):
                    continue
                root = f2.root
                seen_writers.add(root)
                ent = writers_tbl.get(root)
                key = "R19.b|%s|%s" % (root, c.split("::")[-1])
                if root in writer_fns:
                    R.ob("R19.b", key, f2.loc(bb), "auto: the atomic writer (protocol checked by R19.c) [%s]" % cfg, fn=root)
                elif ent:
                    R.ob("R19.b", key, f2.loc(bb), "table: %s — %s" % (ent["class"], ent["reason"]), fn=root)
                else:
                    R.viol("R19.b", key, f2.loc(bb),
                           "%s calls the filesystem-mutating primitive %s but is not a reviewed writer "
                           "(tables/fs_writers.json): only the atomic writer may modify compiler output files" % (root, c),
                           fn=root)
    for k in writers_tbl:
        if k not in seen_writers:
            R.stale_table.append("fs_writers.json: " + k)
    return R.finalize()
