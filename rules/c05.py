"""C05 — compilation is a pure function of source, include files and options.

R05.a hash-order taint, R05.b digest-order taint (module ordertaint),
R05.c global mutable state inventory, R05.d who-may-touch, R05.e RAII
typestate of the int-mode guard, R05.f ambient-input who-may-call."""
import json
import os

import runner
import ordertaint
from flow import Flow
from mir import callee_of, op_local, op_place, op_const, rv_operands, op_int
from report import Report

PID = "C05"
VERIF = os.path.dirname(os.path.dirname(os.path.abspath(__file__)))

COUNTER = "compiler::gensym::ARGNAME_CTR"
TLS = "compiler::clvm::NEW_COMPILATION_LEVEL_INT"
GUARD = "compiler::clvm::NewStyleIntConversion"
GUARD_NEW = GUARD + "::new"
GUARD_FAMILY = (GUARD + "::new", GUARD + "::setting", "<%s as std::ops::Drop>::drop" % GUARD)

# statics emitted by pyo3's macros (create_exception!, #[pyclass], #[pymodule]) in the extension-module configuration
PYO3_RUNTIME_TYPES = (
    "pyo3::sync::GILOnceCell<pyo3::Py<pyo3::types::PyType>>",
    "pyo3::sync::GILOnceCell<std::borrow::Cow<'static, std::ffi::CStr>>",
    "pyo3::impl_::pyclass::lazy_type_object::LazyTypeObject<",
    "pyo3::impl_::pymodule::ModuleDef",
)

COMPILE_ENTRIES = [
    "compiler::compiler::compile_file",
    "compiler::compiler::compile_pre_forms",
    "<compiler::compiler::DefaultCompilerOpts as compiler::comptypes::CompilerOpts>::compile_program",
    "classic::clvm_tools::clvmc::compile_clvm_text_maybe_opt",
    "classic::clvm_tools::clvmc::compile_clvm_text",
    "classic::clvm_tools::clvmc::compile_clvm_inner",
    "classic::clvm_tools::stages::stage_2::compile::do_com_prog_for_dialect",
    "classic::clvm_tools::stages::stage_2::compile::do_com_prog",
    "classic::clvm_tools::stages::stage_2::module::compile_mod",
    "compiler::frontend::frontend",
    "compiler::codegen::codegen",
]
AMBIENT = ("std::time::", "std::env::var", "std::env::vars", "std::env::args", "std::env::current_dir",
           "std::env::temp_dir", "std::process::id", "std::thread::current", "std::thread::ThreadId",
           "rand::", "rand_chacha::", "getrandom::", "std::fmt::Pointer", "std::ptr::addr",
           "std::time::Instant", "std::hash::RandomState::hash_one", "std::hash::BuildHasher::hash_one")


def refs_item(f, item):
    """Does function f mention the named const/static (operand or promoted)?"""
    for p in f.d.get("promoted", []):
        if item in p:
            return True
    for _, _, s in f.stmts(include_cleanup=True):
        for o in rv_operands(s["rv"]):
            c = op_const(o)
            if c and (c.get("static") == item or c.get("uneval") == item):
                return True
        if s["rv"]["k"] == "tlsref" and s["rv"].get("static", "").startswith(item):
            return True
    for _, t in f.calls(include_cleanup=True):
        for a in t["args"]:
            c = op_const(a)
            if c and (c.get("static") == item or c.get("uneval") == item):
                return True
    return False


def run(tier="quick", replay=None):
    R = Report(PID, tier,
               "Six structural clauses whose conjunction removes the channels the property lists. (a) every "
               "iteration of a std HashMap/HashSet (found by type) is classified by how the stream is consumed: "
               "clean by construction, error-choice, sanitised by a sort, or listed in a reviewed table; (b) the "
               "same lattice for containers ordered by a tree digest (digests contain generated names, so their "
               "order depends on the fresh-name counter, i.e. on process history); (c) inventory of interior-"
               "mutable globals; (d) who-may-touch the two legitimate ones; (e) RAII typestate of the int-mode "
               "guard (swap on construct, restore on Drop, held to the end of the compile, never stored/forgotten); "
               "(f) no ambient input (time, env, pid, pointer values) reachable from the compile entry points.",
               "MIR type-driven source discovery + order-taint classification + typestate/who-may-call rules + reviewed table")
    prog, _, infos = runner.load("default")
    R.facts_info = infos
    progs = [("default", prog)]
    if tier == "thorough":
        p2, _, i2 = runner.load("ext")
        R.facts_info += i2
        progs.append(("ext", p2))
    R.trusted = ["rustc MIR construction and Freeze computation", "tables/hash_order.json (reviewed order-sensitive sites)",
                 "std sort is a total re-ordering; BTreeMap/BTreeSet iterate in key order"]
    R.assumptions = ["emitted code contains environment paths, not generated names (value-level, not decided)",
                     "thread-safety beyond absence of shared mutable state is not decided",
                     "a Box/Arc-indirected interior-mutable payload inside a Freeze static would be missed by (c)"]

    # ---------------- R05.c inventory ---------------------------------------------
    n_static = 0
    allowed_hits = set()
    for cfg, pg in progs:
        for s in pg.statics:
            n_static += 1
            path = s["path"]
            ty = s["ty"]
            mutable_payload = s["mut"] or (not s["freeze"])
            if ty.startswith("lazy_static::lazy::Lazy<") and s["ty_args"]:
                mutable_payload = s["mut"] or not all(a["freeze"] for a in s["ty_args"])
            key = "R05.c|%s" % path
            if not mutable_payload:
                R.ob("R05.c", key, "%s:%s" % (s["file"], s["line"]), "auto: immutable (Freeze payload %s)" % ty[:60])
                continue
            if path.startswith("<%s as " % COUNTER) or path == COUNTER:
                allowed_hits.add("counter")
                R.ob("R05.c", key, "%s:%s" % (s["file"], s["line"]), "allowed: the fresh-name counter (who-may-touch checked by R05.d)")
            elif ty.startswith(PYO3_RUNTIME_TYPES):
                R.ob("R05.c", key, "%s:%s" % (s["file"], s["line"]), "allowed: pyo3-generated write-once registration object "
                     "(Python type object / module definition / class doc cache), holds no compilation state")
            elif path.startswith(TLS + "::"):
                allowed_hits.add("tls")
                R.ob("R05.c", key, "%s:%s" % (s["file"], s["line"]), "allowed: the int-mode thread-local (guard typestate checked by R05.e)")
            else:
                R.viol("R05.c", key, "%s:%s" % (s["file"], s["line"]),
                       "new interior-mutable global `%s: %s`: process-wide mutable state is a history channel for "
                       "compilation output until shown otherwise" % (path, ty))
        for path, c in pg.consts.items():
            if "std::thread::LocalKey<" in c["ty"]:
                key = "R05.c|%s" % path
                if path == TLS:
                    R.ob("R05.c", key, "%s:%s" % (c["file"], c["line"]), "allowed: handle of the int-mode thread-local")
                else:
                    R.viol("R05.c", key, "%s:%s" % (c["file"], c["line"]),
                           "new thread_local `%s: %s`: per-thread mutable state makes output depend on which thread "
                           "compiles / what it compiled before" % (path, c["ty"]))
    R.floor("R05.c", "named mutable globals present", len(allowed_hits), 2)
    R.counts["statics"] = n_static

    # ---------------- R05.d who may touch -------------------------------------------
    for cfg, pg in progs:
        users_ctr, users_tls = [], []
        for f in pg.fns.values():
            if refs_item(f, COUNTER):
                users_ctr.append(f)
            if refs_item(f, TLS):
                users_tls.append(f)
        for f in users_ctr:
            ok = f.root == "compiler::gensym::gensym" or f.root.startswith("<%s as " % COUNTER)
            R.check(ok, "R05.d", "R05.d|counter|%s" % f.root, "%s:%s" % (f.file, f.line),
                    "auto: only gensym touches the counter",
                    "%s touches the fresh-name counter ARGNAME_CTR directly (only gensym may: resetting or reading it "
                    "elsewhere makes names depend on history in a new way)" % f.root, fn=f.root)
        for f in users_tls:
            ok = f.root in GUARD_FAMILY or f.root == TLS or f.root.startswith(TLS + "::")
            R.check(ok, "R05.d", "R05.d|tls|%s" % f.root, "%s:%s" % (f.file, f.line),
                    "auto: only the guard's new/setting/drop touch the thread-local",
                    "%s accesses the int-mode thread-local outside NewStyleIntConversion::{new,setting,drop}: the mode "
                    "could be changed without being restored" % f.root, fn=f.root)
        if cfg == "default":
            R.floor("R05.d", "counter users", len(users_ctr), 1)
            R.floor("R05.d", "thread-local users", len(users_tls), 3)
            R.counts["gensym callers"] = sorted({f.root for f, _, _ in pg.call_sites(lambda c: c == "compiler::gensym::gensym")})

    # ---------------- R05.e guard typestate --------------------------------------------
    check_guard(prog, R)

    # ---------------- R05.f ambient inputs ------------------------------------------------
    compile_reach = set()
    for cfg, pg in progs:
        reach = pg.reachable_fns(COMPILE_ENTRIES)
        if cfg == "default":
            compile_reach = set(reach)
        present = [e for e in COMPILE_ENTRIES if e in pg.fns]
        if cfg == "default":
            R.floor("R05.f", "compile entry points found", len(present), 9)
            R.counts["functions reachable from compile entries"] = len(reach)
        nviol = 0
        for p in sorted(reach):
            f = pg.fns[p]
            for bb, t in f.calls():
                c = (callee_of(t) or "") + " " + (t.get("callee") or "")
                hit = [a for a in AMBIENT if a in c]
                if hit:
                    nviol += 1
                    R.viol("R05.f", "R05.f|%s|%s" % (f.root, (callee_of(t) or "").split("<")[0]), f.loc(bb),
                           "%s (reachable from a compile entry point) calls %s: compilation would depend on ambient "
                           "state" % (f.root, callee_of(t)), fn=f.root)
            # pointer values escaping into data
            fl = None
            for bb, i, s in f.stmts():
                rv = s["rv"]
                if rv["k"] == "cast" and ("PointerExposeProvenance" in rv["kind"] or "PointerExposeAddress" in rv["kind"]
                                          or (rv["kind"].startswith("Transmute") and rv["ty"] in ("usize", "u64", "isize")
                                              and "*" in f.local_ty(op_local(rv["op"]) or 0))):
                    if fl is None:
                        fl = Flow(f)
                    fw = fl.forward([s["pl"]["l"]])
                    escapes = 0 in fw
                    for bb2, t2 in f.calls():
                        if any(op_local(a) in fw for a in t2["args"]):
                            escapes = True
                    if escapes:
                        nviol += 1
                        R.viol("R05.f", "R05.f|%s|ptr-to-int" % f.root, "%s:%s" % (f.file, s.get("line")),
                               "%s turns a pointer into an integer that flows into data: addresses vary run to run" % f.root,
                               fn=f.root)
        R.ob("R05.f", "R05.f|reachable-clean|%s" % cfg, "call graph", "auto: %d functions reachable from the compile "
             "entry points, %d ambient-input calls" % (len(reach), nviol))
    # positive control so the zero above is not vacuous: the same predicate must match the CLI's timing code
    ctl = [1 for f in prog.fns.values() for _, t in f.calls() if "std::time::" in (callee_of(t) or "")]
    R.check(len(ctl) >= 1, "R05.f", "R05.f|positive-control", "classic::clvm_tools::cmds::launch_tool",
            "auto: predicate matches %d std::time calls outside the compile call graph (launch_tool --time)" % len(ctl),
            "positive control lost: no std::time call matched anywhere; the ambient predicate may be vacuous")

    # ---------------- R05.g quoted data is never renamed ---------------------------------------
    check_quoted_not_renamed(prog, R)

    # ---------------- R05.h generated names in the reported symbol table ---------------------------
    check_generated_names_in_symbols(prog, R)

    # ---------------- R05.a / R05.b order taint ------------------------------------------------
    ordertaint.check(prog, R, tier, compile_reach)
    return R.finalize()


def check_guard(prog, R):
    new = prog.fn(GUARD_NEW)
    drop = prog.fn("<%s as std::ops::Drop>::drop" % GUARD)
    if new is None:
        R.viol("R05.e", "R05.e|anchor-lost|new", GUARD, "anchor lost: %s::new" % GUARD)
        return
    if drop is None:
        R.viol("R05.e", "R05.e|no-drop-impl", GUARD,
               "NewStyleIntConversion has no Drop impl: the previous int mode is never restored, so the mode seen by a "
               "compilation depends on what was compiled before on this thread")
        return
    # (i) new is a swap: closure calls mem::swap(captured new_val, borrow_mut(cell)); returns captured value
    ok_new = False
    for clo in prog.closures_of(GUARD_NEW):
        fl = Flow(clo)
        for bb, t in clo.calls():
            if (callee_of(t) or "") == "std::mem::swap":
                a, b = op_local(t["args"][0]), op_local(t["args"][1])
                sa, sb = fl.back([a]), fl.back([b])
                from_up = lambda s: any(x < 0 for x in s)
                from_cell = lambda s: any("borrow_mut" in (callee_of(tt) or "") for x in s for _, tt in fl.call_defs.get(x, []))
                if (from_up(sa) and from_cell(sb)) or (from_up(sb) and from_cell(sa)):
                    ret_from_up = any(x < 0 for x in fl.back([0]))
                    ok_new = ret_from_up
    fln = Flow(new)
    field_from_with = bool(fln.derives_from_call(0, lambda c: c.endswith("LocalKey::<T>::with")))
    R.check(ok_new and field_from_with, "R05.e.i", "R05.e.i|new-swaps", "%s:%s" % (new.file, new.line),
            "auto: new() swaps the requested mode into the thread-local and keeps the previous value in the guard",
            "NewStyleIntConversion::new no longer swaps: the guard must hold the value that was in the thread-local "
            "before (swap(new, cell) and return the old one)", fn=GUARD_NEW)
    ok_drop = False
    const_store = False
    for clo in prog.closures_of(drop.path):
        fl = Flow(clo)
        for bb, i, s in clo.stmts():
            if s["pl"]["p"] and s["pl"]["p"][0] == "*" and s["pl"]["l"] != 1:
                tgt = fl.back([s["pl"]["l"]])
                through_cell = any("borrow_mut" in (callee_of(tt) or "") for x in tgt for _, tt in fl.call_defs.get(x, []))
                if not through_cell:
                    continue
                src = [op_local(o) for o in rv_operands(s["rv"])]
                if any(l is not None and any(x < 0 for x in fl.back_pure([l])) for l in src):
                    ok_drop = True
                if any(op_const(o) is not None for o in rv_operands(s["rv"])):
                    const_store = True
    R.check(ok_drop and not const_store, "R05.e.i", "R05.e.i|drop-restores", "%s:%s" % (drop.file, drop.line),
            "auto: Drop stores the guard's saved value back into the thread-local",
            "Drop for NewStyleIntConversion does not restore the saved value (restores=%s, stores a constant=%s)" % (
                ok_drop, const_store), fn=drop.path)

    # (ii) construction sites hold the guard to the end
    sites = [(f, bb, t) for f, bb, t in prog.call_sites(lambda c: c == GUARD_NEW)]
    R.floor("R05.e.ii", "guard construction sites", len(sites), 2)
    for f, bb, t in sites:
        L = t["dest"]["l"]
        key = "R05.e.ii|%s" % f.path
        if t["dest"]["p"] or L == 0:
            R.viol("R05.e.ii", key, f.loc(bb), "%s stores or returns the int-mode guard instead of holding it in a local" % f.path, fn=f.path)
            continue
        drops = [b for b, blk in enumerate(f.blocks) if blk["t"]["k"] == "drop" and not blk.get("cleanup")
                 and blk["t"]["pl"]["l"] == L and not blk["t"]["pl"]["p"]]
        moved = []
        for b2, i2, s2 in f.stmts():
            for o in rv_operands(s2["rv"]):
                p = op_place(o)
                if p and p["l"] == L and s2["rv"]["k"] != "ref":
                    moved.append(f.loc(b2))
        for b2, t2 in f.calls():
            for a in t2["args"]:
                p = op_place(a)
                if p and p["l"] == L:
                    moved.append(f.loc(b2))
        calls_after = []
        for d in drops:
            for b2 in f.reachable(f.term(d)["target"]):
                if f.term(b2)["k"] == "call":
                    calls_after.append(f.loc(b2))
        # some real work must happen while the guard is alive
        work = [b2 for b2 in f.reachable(t["target"], avoid=drops) if f.term(b2)["k"] == "call"
                and (f.term(b2).get("callee_local") or f.term(b2).get("target_local"))]
        ok = bool(drops) and not moved and not calls_after and bool(work)
        R.check(ok, "R05.e.ii", key, f.loc(bb),
                "auto: guard local _%d (%s) is dropped only at scope end: %d drop(s), each followed by no call; %d "
                "crate-local call(s) run under the guard" % (L, f.local_name(L), len(drops), len(work)),
                "%s does not hold the int-mode guard for the whole compilation: drops=%d moved/used at %s calls after "
                "drop at %s work under guard=%d (e.g. `let _ = NewStyleIntConversion::new(..)` restores the old mode at once)" % (
                    f.path, len(drops), sorted(set(moved)), sorted(set(calls_after))[:4], len(work)), fn=f.path)

    # (iii) the guard type is never stored, returned or leaked
    for a in prog.adts.values():
        for v in a["variants"]:
            for fd in v["fields"]:
                if GUARD in fd["ty"] and a["path"] != GUARD:
                    R.viol("R05.e.iii", "R05.e.iii|field|%s.%s" % (a["path"], fd["name"]), a["path"],
                           "guard type stored in field %s.%s: guards would no longer nest LIFO" % (a["path"], fd["name"]))
    n = 0
    for f in prog.fns.values():
        n += 1
        if GUARD in f.locals[0]["ty"] and f.path != GUARD_NEW and not f.path.startswith("<" + GUARD):
            R.viol("R05.e.iii", "R05.e.iii|returned|%s" % f.path, "%s:%s" % (f.file, f.line),
                   "%s returns the int-mode guard; it must stay in the frame that created it" % f.path, fn=f.path)
        for bb, t in f.calls():
            c = callee_of(t) or ""
            if any(c.endswith(x) for x in ("mem::forget", "ManuallyDrop::<T>::new", "Box::<T>::leak", "Box::<T>::new",
                                           "Rc::<T>::new", "Arc::<T>::new", "mem::take", "mem::replace")) \
                    and any(GUARD in g for g in t.get("gargs", [])):
                R.viol("R05.e.iii", "R05.e.iii|leak|%s" % f.path, f.loc(bb),
                       "%s passes the int-mode guard to %s: its Drop (mode restore) may never run / run out of order" % (f.path, c), fn=f.path)
    R.ob("R05.e.iii", "R05.e.iii|scan", "whole crate", "auto: guard type in no ADT field, no return type (other than new), "
         "no forget/ManuallyDrop/Box/Rc (scanned %d bodies, %d ADTs)" % (n, len(prog.adts)))


def check_quoted_not_renamed(prog, R):
    """Generated names must never reach literal data: a `BodyForm::Quoted` payload may not be taken from a
    name -> name rename map (HashMap<Vec<u8>, Vec<u8>>::get) nor from gensym.  Quoted forms are emitted verbatim,
    so a renamed quoted atom puts `x_$_N` (N = process-wide counter) into the compiled program."""
    n = 0
    for f in sorted(prog.fns.values(), key=lambda f: f.path):
        fl = None
        for bb, i, s in f.stmts():
            rv = s["rv"]
            if not (rv["k"] == "agg" and rv.get("adt") == "compiler::comptypes::BodyForm" and rv.get("variant") == "Quoted"):
                continue
            in_rename = f.root.startswith("compiler::rename::")
            if fl is None:
                fl = Flow(f)
            l = op_local(rv["ops"][0])
            srcs = []
            if l is not None:
                for x in fl.back([l]):
                    for b2, t2 in fl.call_defs.get(x, []):
                        c = callee_of(t2) or ""
                        g = t2.get("gargs", [])
                        if c == "compiler::gensym::gensym":
                            srcs.append("gensym")
                        if c.endswith("HashMap::<K, V, S>::get") or c.endswith("HashMap::<K, V, S, A>::get"):
                            if len(g) >= 2 and g[0] == "std::vec::Vec<u8>" and g[1] == "std::vec::Vec<u8>":
                                srcs.append("rename-map lookup")
            if in_rename:
                n += 1
            key = "R05.g|%s|Quoted" % f.path
            if srcs:
                R.viol("R05.g", key, "%s:%s" % (f.file, s.get("line")),
                       "%s builds quoted (literal) data from a %s: a quoted atom that happens to be spelled like a variable in "
                       "scope is replaced by its generated name `x_$_N`, which is emitted verbatim and changes with the "
                       "process-wide name counter" % (f.path, "/".join(sorted(set(srcs)))), fn=f.path)
            elif in_rename:
                R.ob("R05.g", key + "#%d" % n, "%s:%s" % (f.file, s.get("line")),
                     "auto: quoted payload is carried over unchanged (no rename-map lookup, no gensym)", fn=f.path)
    R.floor("R05.g", "BodyForm::Quoted constructions in the renamer", n, 1)


ORDER_OPS = ("cmp", "partial_cmp", "lt", "le", "gt", "ge", "max", "min", "max_by", "min_by", "max_by_key", "min_by_key",
             "sort", "sort_by", "sort_by_key", "sort_unstable", "sort_unstable_by", "sort_unstable_by_key", "sort_by_cached_key",
             "binary_search", "binary_search_by", "binary_search_by_key", "partition_point", "is_sorted")


def check_no_order_on_generated_names(prog, R, carrying):
    """R05.i: a name field that can hold a gensym result (`x_$_N`, N = the process-wide counter) is never ORDERED: comparing
    two such names with < / cmp / a sort puts `cse_$_1000` before `cse_$_999`, so whatever is laid out in that order
    depends on how many names earlier compilations in the process consumed.  Equality tests are fine.  Atom payloads
    (SExp.1) are not tracked - any atom can be a user name - only the fields that exist to name bindings and functions."""
    fields = {(adt, fld) for (adt, fld) in carrying if not adt.endswith("sexp::SExp")}
    if not fields:
        return

    def reads_carrier(f, fl, nodes):
        for _, _, st in f.stmts():
            if fl.node(st["pl"]) not in nodes:
                continue
            for o in rv_operands(st["rv"]):
                pl = op_place(o)
                for e in (pl["p"] if pl else []):
                    if isinstance(e, dict) and "f" in e and e.get("of"):
                        for adt, fld in fields:
                            if str(e["f"]) == str(fld) and (e["of"] == adt or e["of"].startswith(adt + "::")):
                                return "%s.%s" % (adt.rsplit("::", 1)[-1], fld)
        return None
    flows = {}

    def flow(f):
        if f.path not in flows:
            flows[f.path] = Flow(f)
        return flows[f.path]
    # functions returning a value read from a carrier field (one level of helpers is enough for accessor functions)
    carrier_fns = {}
    for f in prog.fns.values():
        if not f.path.startswith("compiler::") or f.kind == "Closure":
            continue
        rty = f.local_ty(0)
        if "u8" not in rty:
            continue
        fl = flow(f)
        hit = reads_carrier(f, fl, fl.back_pure([0]))
        if hit:
            carrier_fns[f.path] = hit
    nsites = 0
    for f in sorted(prog.fns.values(), key=lambda f: f.path):
        if not f.path.startswith("compiler::"):
            continue
        fl = None
        for bb, t in f.calls():
            nm = (t.get("callee") or callee_of(t) or "").rsplit("::", 1)[-1]
            if nm not in ORDER_OPS or not t["args"]:
                continue
            tys = " ".join(t.get("arg_tys") or []) + " " + " ".join(t.get("gargs") or [])
            if "u8" not in tys and "Binding" not in tys and "DefunData" not in tys:
                continue
            fl = fl or flow(f)
            hit = None
            for a in t["args"]:
                l = op_local(a)
                if l is None:
                    continue
                sl = fl.back_pure([l], stop=lambda x: 0 < x <= f.argc)
                hit = reads_carrier(f, fl, sl)
                if not hit:
                    for x in sl:
                        for _, t2 in fl.call_defs.get(x, []):
                            if (callee_of(t2) or "") in carrier_fns:
                                hit = carrier_fns[callee_of(t2)] + " (through %s)" % callee_of(t2).rsplit("::", 1)[-1]
                if hit:
                    break
            nsites += 1
            if hit:
                R.viol("R05.i", "R05.i|%s|order-on-generated-name|%s" % (f.root, nm), f.loc(bb),
                       "%s orders values by `%s` (%s), a field that can hold a generated name `x_$_N`: N is the process-wide "
                       "fresh-name counter, and byte-wise order of such names changes when N crosses a power of ten (`cse_$_1000` < "
                       "`cse_$_999`), so the layout produced in that order depends on what was compiled before in the process" % (
                           f.path, hit, nm), fn=f.path)
    R.ob("R05.i", "R05.i|no-order-on-generated-names", "compiler::", "auto: %d ordering operations over byte strings / binding records "
         "under compiler:: examined, none orders a field that can hold a generated name (%s)" % (nsites, sorted("%s.%s" % k for k in fields)))


def check_generated_names_in_symbols(prog, R):
    """The reported symbol table maps code hashes to function names.  If a name produced by gensym (suffix = value of
    the process-wide counter) can be stored as a function's name and that name is handed to add_defun, the symbol
    ENTRIES of one and the same program differ between two compilations in one process."""
    GENSYM = "compiler::gensym::gensym"
    NAME_COPY = ("clone", "to_vec", "to_owned", "deref", "borrow", "as_ref", "into", "from")
    carrying = {}
    for f in prog.fns.values():
        if f.path.endswith("as std::clone::Clone>::clone"):
            continue
        fl = None
        for bb, i, s in f.stmts():
            rv = s["rv"]
            if not (rv["k"] == "agg" and rv.get("agg") == "adt" and rv.get("fields")):
                continue
            for fld, o in zip(rv["fields"], rv["ops"]):
                l = op_local(o)
                if l is None or f.local_ty(l) != "std::vec::Vec<u8>":
                    continue
                fl = fl or Flow(f)
                # direct provenance: gensym result through copies only
                cur, seen, hit = {l}, set(), False
                while cur:
                    x = cur.pop()
                    if x in seen:
                        continue
                    seen.add(x)
                    for b2, t2 in fl.call_defs.get(x, []):
                        c = callee_of(t2) or ""
                        if c == GENSYM:
                            hit = True
                        elif c.rsplit("::", 1)[-1] in NAME_COPY and t2["args"]:
                            p = op_place(t2["args"][0])
                            if p:
                                cur.add(fl.node(p))
                    for b2, i2, s2 in f.stmts():
                        if fl.node(s2["pl"]) == x and not s2["pl"]["p"] and s2["rv"]["k"] in ("use", "ref"):
                            for o2 in rv_operands(s2["rv"]):
                                p = op_place(o2)
                                if p and not [e for e in p["p"] if e != "*"]:
                                    cur.add(fl.node(p))
                if hit:
                    carrying.setdefault((rv["adt"], fld), []).append("%s:%s" % (f.file, s.get("line")))
    sinks = []
    for f, bb, t in prog.call_sites(lambda c: c == "compiler::comptypes::PrimaryCodegen::add_defun"):
        fl = Flow(f)
        l = op_local(t["args"][1]) if len(t["args"]) > 1 else None
        flds = set()
        for x in fl.back_pure([l]) if l is not None else []:
            for b2, i2, s2 in f.stmts():
                if fl.node(s2["pl"]) == x:
                    for o in rv_operands(s2["rv"]):
                        p = op_place(o)
                        if p:
                            for e in p["p"]:
                                if isinstance(e, dict) and "f" in e and e.get("of"):
                                    flds.add((e["of"].split("::")[-1] if False else e["of"], e["f"]))
        for (adt, fld), where in carrying.items():
            if any(of == adt or of.startswith(adt + "::") or adt.endswith(of) for of, ff in flds if ff == fld):
                sinks.append((f, bb, adt, fld, where))
    R.counts["fields that can hold a generated name"] = sorted("%s.%s" % k for k in carrying)
    check_no_order_on_generated_names(prog, R, carrying)
    if not sinks:
        R.ob("R05.h", "R05.h|no-generated-names-in-symbols", "compiler::comptypes::PrimaryCodegen::add_defun",
             "auto: no function name handed to add_defun is read from a field that can hold a gensym result")
    for f, bb, adt, fld, where in sinks:
        R.viol("R05.h", "R05.h|generated-names-in-symbols|%s.%s" % (adt.rsplit("::", 1)[-1], fld), f.loc(bb),
               "%s registers function symbols under `%s.%s`, which for compiler-synthesised functions (let bindings, lambdas) holds a "
               "gensym name `x_$_N` (assigned at %s): N is the value of the process-wide counter, so the user-visible symbol entries "
               "of the same program differ between two compilations in one process" % (
                   f.path, adt.rsplit("::", 1)[-1], fld, ", ".join(sorted(set(where))[:3])), fn=f.path)
