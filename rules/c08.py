"""C08 — serialisation tables and length checks.

R08.a  the writer's length-class table (guard chain + emitted prefix bytes),
       recovered from MIR as symbolic expressions of the atom size, equals the
       format's closed form: class n (1..5) covers size < 2^(7n-1), prefix
       byte0 = (0xFF << (8-n)) & 0xFF | size >> 8(n-1), then size's lower bytes;
R08.b  the reader checks the length of every stream read before using it, has
       the same size limit as the writer's last class and the same one-byte /
       empty-atom classes;
R08.c  the writer walks pairs in pre-order (first before rest) behind the
       0xFF marker."""
import os

import runner
from defs import Defs, const_ints
from flow import Flow
from mir import callee_of, op_const, op_int, op_local, op_place, rv_operands
from paths import err_assign_blocks, must_pass, ok_assign_blocks
from report import Report

PID = "C08"
WRITER = "classic::clvm::serialize::atom_size_blob"
READER = "classic::clvm::serialize::atom_from_stream"
READ_OP = "<classic::clvm::serialize::OpReadSexp as classic::clvm::serialize::OpStackEntry>::invoke"
ITER_NEXT = "<classic::clvm::serialize::SExpToBytesIterator<'_> as std::iter::Iterator>::next"
WIDTH = {"u8": 8, "u16": 16, "u32": 32, "u64": 64, "usize": 64, "i8": 8, "i16": 16, "i32": 32, "i64": 64, "isize": 64}
LINEAR_OPS = {"Shr", "BitAnd", "BitOr", "Cast", "Div2"}


class Expr:
    """Symbolic integer expressions over one variable SIZE, recovered backwards
    from single-definition MIR temporaries."""

    def __init__(self, fn, size_locals):
        self.fn = fn
        self.defs = Defs(fn)
        self.size_locals = size_locals
        self.ops_on_size = set()

    def operand(self, op, depth=0):
        v = op_int(op)
        if v is not None:
            return ("c", v)
        p = op_place(op)
        if p is None:
            return ("?",)
        if p["p"]:
            flds = [str(e["f"]) for e in p["p"] if isinstance(e, dict) and "f" in e]
            if flds == ["0"]:
                return self.local(p["l"], depth + 1)   # (checked-op result).0
            return ("?",)
        return self.local(p["l"], depth + 1)

    def local(self, l, depth=0):
        if l in self.size_locals:
            return ("size",)
        if depth > 60:
            return ("?",)
        ds = self.defs.whole_defs(l)
        if len(ds) != 1 or ds[0][0] != "stmt":
            return ("?",)
        rv = ds[0][3]["rv"]
        if rv["k"] == "use":
            return self.operand(rv["op"], depth + 1)
        if rv["k"] == "cast":
            return ("cast", rv["ty"], self.operand(rv["op"], depth + 1))
        if rv["k"] == "bin":
            op = rv["op"].replace("WithOverflow", "").replace("Unchecked", "")
            return (op, self.operand(rv["a"], depth + 1), self.operand(rv["b"], depth + 1))
        return ("?",)

    def has_size(self, e):
        if e[0] == "size":
            return True
        return any(isinstance(x, tuple) and self.has_size(x) for x in e[1:])

    def ops(self, e, acc):
        """Operators applied to sub-expressions that contain SIZE."""
        if e[0] in ("c", "size", "?"):
            return
        if self.has_size(e):
            if e[0] == "cast":
                acc.add("Cast")
            elif e[0] == "Div":
                d = ev(e[2], 0)
                acc.add("Div2" if d and d & (d - 1) == 0 else "Div")
            else:
                acc.add(e[0])
        for x in e[1:]:
            if isinstance(x, tuple):
                self.ops(x, acc)


def ev(e, size):
    k = e[0]
    if k == "c":
        return e[1]
    if k == "size":
        return size
    if k == "?":
        return None
    if k == "cast":
        v = ev(e[2], size)
        if v is None:
            return None
        w = WIDTH.get(e[1])
        return v & ((1 << w) - 1) if w else v
    a, b = ev(e[1], size), ev(e[2], size)
    if a is None or b is None:
        return None
    try:
        return {"Shr": lambda: a >> b, "Shl": lambda: a << b, "BitAnd": lambda: a & b, "BitOr": lambda: a | b,
                "BitXor": lambda: a ^ b, "Add": lambda: a + b, "Sub": lambda: a - b, "Mul": lambda: a * b,
                "Div": lambda: a // b if b else None, "Rem": lambda: a % b if b else None}[k]()
    except KeyError:
        return None


def show(e):
    if e[0] == "c":
        return hex(e[1]) if e[1] > 9 else str(e[1])
    if e[0] in ("size", "?"):
        return e[0]
    if e[0] == "cast":
        return "(%s as %s)" % (show(e[2]), e[1])
    return "%s(%s, %s)" % (e[0], show(e[1]), show(e[2]))


def spec_bytes(n, size):
    first = ((0xFF << (8 - n)) & 0xFF) | (size >> (8 * (n - 1)))
    return [first & 0xFF] + [(size >> (8 * j)) & 0xFF for j in range(n - 2, -1, -1)]


def size_locals_of(f, fl, producer_pred):
    """Locals that are copies/casts of the value produced by the matching call."""
    seeds = [t["dest"]["l"] for bb, t in f.calls() if producer_pred(callee_of(t) or "")]
    out = set(seeds)
    changed = True
    while changed:
        changed = False
        for bb, i, s in f.stmts():
            d = s["pl"]["l"]
            if d in out or s["pl"]["p"]:
                continue
            rv = s["rv"]
            if rv["k"] in ("use", "cast"):
                p = op_place(rv["op"])
                if p and not p["p"] and p["l"] in out:
                    out.add(d)
                    changed = True
    return out


def _err_ok_blocks(f):
    """Blocks assigning a failure / a success to the return place, by the shape of the return type."""
    errb = set(err_assign_blocks(f))
    okb = set(ok_assign_blocks(f))
    rty = f.local_ty(0)
    if rty.startswith("std::option::Option<"):
        some_is_err = "Err" in rty
        errb, okb = set(), set()
        for b2, i2, s2 in f.stmts():
            if s2["pl"]["l"] == 0 and s2["rv"]["k"] == "agg" and s2["rv"].get("variant") in ("Some", "None"):
                is_err = (s2["rv"]["variant"] == "Some") == some_is_err
                (errb if is_err else okb).add(b2)
    return errb, okb


_WRAPPERS = {}


def checked_read_wrapper(prog, g, depth=0):
    """g is a crate-local function returning Option<Bytes> / Result<Bytes, _> all of whose stream reads are length-checked
    (directly or through another such wrapper) and which has at least one: its callers cannot obtain the bytes of a short
    read without handling the failure.  Forwarders (`w(..).ok_or_else(e)`, `w(..)?`) count."""
    if g.path in _WRAPPERS:
        return _WRAPPERS[g.path]
    _WRAPPERS[g.path] = False
    rty = g.local_ty(0)
    if depth > 3 or g.kind == "Closure" or "Bytes" not in rty or not (rty.startswith("std::option::Option<") or rty.startswith("std::result::Result<")):
        return False
    res = read_checks(prog, g, depth + 1)
    _WRAPPERS[g.path] = bool(res) and all(ok for _, _, ok, _, _ in res)
    return _WRAPPERS[g.path]


def read_checks(prog, f, depth=0):
    """[(block, kind, ok, how, message)] for every stream read of f: direct `Stream::read` calls (the length of the data must be
    compared with the count requested, the mismatch edge must reach only failures, uses must lie behind the match edge) and
    calls of checked read wrappers (the result must not be defaulted away)."""
    out = []
    fl = Flow(f)
    errb, okb = _err_ok_blocks(f)
    for bb, t in f.calls():
        c = callee_of(t) or ""
        if c.endswith("Stream::read"):
            continue
        g = prog.fns.get(c)
        if g is not None and (t.get("callee_local") or t.get("target_local")) and checked_read_wrapper(prog, g, depth):
            r = t["dest"]["l"]
            fw = fl.forward([r])
            swallow = [callee_of(t2) for _, t2 in f.calls() if (callee_of(t2) or "").rsplit("::", 1)[-1] in
                       ("unwrap_or", "unwrap_or_default", "unwrap_or_else") and t2["args"] and op_local(t2["args"][0]) in fw]
            out.append((bb, "wrapper", not swallow,
                        "auto: read through the length-checked wrapper %s; the failure cannot be ignored to obtain the bytes" % c,
                        "%s reads through %s but replaces a short read by a default value (%s)" % (f.path, c, swallow)))
    for bb, t in f.calls():
        if not (callee_of(t) or "").endswith("Stream::read"):
            continue
        r = t["dest"]["l"]
        n_arg = t["args"][1]
        n_const = op_int(n_arg)
        n_src = fl.back_pure([op_local(n_arg)]) if op_local(n_arg) is not None else set()
        aliases = {r}
        grew = True
        while grew:
            grew = False
            for _, _, s in f.stmts():
                if s["pl"]["l"] in aliases or s["pl"]["p"]:
                    continue
                if s["rv"]["k"] in ("ref", "use"):
                    for o in rv_operands(s["rv"]):
                        p = op_place(o)
                        if p and p["l"] in aliases and not [e for e in p["p"] if e != "*"]:
                            aliases.add(s["pl"]["l"])
                            grew = True
        ok_test = None
        for lb, lt in f.calls():
            if not (callee_of(lt) or "").endswith("Bytes::length"):
                continue
            if op_local(lt["args"][0]) not in aliases:
                continue
            ll = lt["dest"]["l"]
            for cb, ci, cs in f.stmts():
                rv = cs["rv"]
                if rv["k"] == "bin" and rv["op"] in ("Ne", "Eq") and ll in (op_local(rv["a"]), op_local(rv["b"])):
                    other = rv["b"] if op_local(rv["a"]) == ll else rv["a"]
                    oc = op_int(other)
                    same = False
                    if oc is not None:
                        same = (n_const is not None and (oc == n_const or (n_const == 1 and oc == 0 and rv["op"] == "Eq")))
                    elif op_local(other) is not None:
                        same = bool(fl.back_pure([op_local(other)]) & n_src)
                    if not same:
                        continue
                    cl = cs["pl"]["l"]
                    for sb, blk in enumerate(f.blocks):
                        tt = blk["t"]
                        if tt["k"] == "switch" and op_local(tt["discr"]) == cl:
                            arms = dict((v, g_) for v, g_ in tt["arms"])
                            t_true, t_false = (tt["otherwise"] if 0 in arms else arms.get(1)), arms.get(0, tt["otherwise"])
                            if rv["op"] == "Ne":
                                mism, match = t_true, t_false
                            elif oc == 0 and n_const == 1:
                                mism, match = t_true, t_false
                            else:
                                mism, match = t_false, t_true
                            ok_test = (sb, mism, match)
        if ok_test is None:
            out.append((bb, "read", False, "",
                        "%s reads %s byte(s) from the stream but never compares the length actually read with the count "
                        "requested: a truncated input would be decoded into a shorter (different) atom" % (
                            f.path, n_const if n_const is not None else "a computed number of")))
            continue
        sb, mism, match = ok_test
        mism_reach = f.reachable(mism, avoid=[match])
        only_err = bool(mism_reach & errb) and not (mism_reach & okb)
        uses = []
        for ub, ut in f.calls():
            if ub == bb or (callee_of(ut) or "").endswith("Bytes::length"):
                continue
            if any(op_local(a) in aliases for a in ut["args"]):
                uses.append(ub)
        guarded = all(u not in f.reachable(0, avoid_edges=[(sb, match)]) or u not in f.reachable(0) for u in uses)
        out.append((bb, "read", only_err and guarded,
                    "auto: length of the data read is compared with the requested count; mismatch returns an error; the %d "
                    "use(s) of the data are only reachable through the match edge" % len(uses),
                    "%s: stream read at %s - mismatch edge returns only errors=%s, all uses behind the length check=%s" % (
                        f.path, f.loc(bb), only_err, guarded)))
    return out


def run(tier="quick", replay=None):
    R = Report(PID, tier,
               "Recovers the writer's atom length-class table from MIR (ordered `size < C` guard chain; each arm's emitted prefix "
               "bytes as symbolic expressions of size built only from shifts/masks/ors/casts) and checks it against the format's "
               "closed form by evaluating the expressions on every single-bit size, the class boundaries and pseudo-random sizes "
               "of each class (exact for bitwise-linear expressions); checks that every Stream::read in the reader has its length "
               "compared with the requested count before the data is used, the mismatch edge leading only to errors; that the "
               "reader's size limit equals the writer's last threshold and the one-byte/empty classes mirror the writer; and that "
               "pairs are written marker, first, rest. Decides these structural clauses, not byte-identity with clvmr for all atoms.",
               "MIR symbolic expression recovery + closed-form comparison + dominance rules")
    prog, cprog, infos = runner.load("default", want_clvmr=True)
    R.facts_info = infos
    seed = int(os.environ.get("VERIF_SEED", "0") or 0)
    R.trusted = ["rustc MIR construction", "the closed form of the CLVM serialisation format (stated in serialize.rs's header comment)"]
    R.assumptions = ["byte-identity with clvmr::serde for all atoms is not decided", "sexp_from_stream ignoring invoke's returned "
                     "error is harmless by a value-count argument (a failed leaf ends with an empty value stack => Err), not decided here",
                     "a table-driven rewrite of the writer is reported as anchor-lost (accepted cost)"]

    # ---------------- R08.a writer --------------------------------------------------------
    w = prog.fn(WRITER)
    thresholds = []
    if w is None:
        R.viol("R08.a", "R08.a|anchor-lost|writer", WRITER, "anchor lost: atom_size_blob")
    else:
        fl = Flow(w)
        sz = size_locals_of(w, fl, lambda c: c.endswith("Bytes::length") or c.endswith("::len"))
        ex = Expr(w, sz)
        guards = []
        for bb, blk in enumerate(w.blocks):
            t = blk["t"]
            if t["k"] != "switch" or blk.get("cleanup"):
                continue
            dl = op_local(t["discr"])
            ds = ex.defs.whole_defs(dl) if dl is not None else []
            if len(ds) == 1 and ds[0][0] == "stmt" and ds[0][3]["rv"]["k"] == "bin":
                rv = ds[0][3]["rv"]
                a = ex.operand(rv["a"])
                c = op_int(rv["b"])
                if c is None:
                    be = ex.operand(rv["b"])
                    c = ev(be, 0) if not ex.has_size(be) else None     # e.g. `1 << 6`, a named constant expression
                if a == ("size",) and c is not None and rv["op"] in ("Lt", "Le", "Gt", "Ge") and c >= 0x40:
                    arms = dict((v, g) for v, g in t["arms"])
                    guards.append({"bb": bb, "op": rv["op"], "c": c, "true": t["otherwise"] if 0 in arms else arms.get(1),
                                   "false": arms.get(0, t["otherwise"])})
        # order along the false chain
        guards.sort(key=lambda g: g["c"])
        R.floor("R08.a", "size-class guards", len(guards), 5, WRITER)
        arrays = []
        for bb, i, s in w.stmts():
            rv = s["rv"]
            if rv["k"] == "agg" and rv.get("agg") == "array" and rv.get("elem_ty") == "u8":
                arrays.append((bb, rv["ops"]))
        for n, g in enumerate(guards, start=1):
            key = "R08.a|class-%d" % n
            want_c = 1 << (7 * n - 1)
            okc = g["op"] == "Lt" and g["c"] == want_c
            R.check(okc, "R08.a.threshold", key + "|threshold", w.loc(g["bb"]),
                    "auto: class %d guard is `size < 0x%x` = 2^(7*%d-1)" % (n, want_c, n),
                    "length class %d of the writer is guarded by `size %s 0x%x`; the format requires `size < 0x%x` — atoms of "
                    "length 0x%x..0x%x would be written with a prefix the reader (and consensus) decode as a different length" % (
                        n, g["op"], g["c"], want_c, min(g["c"], want_c), max(g["c"], want_c)), fn=WRITER)
            thresholds.append(g["c"])
            region = w.reachable(g["true"], avoid=[g["false"]])
            mine = [(bb, ops) for bb, ops in arrays if bb in region]
            if len(mine) != 1:
                R.viol("R08.a.bytes", key + "|bytes", w.loc(g["bb"]),
                       "anchor lost: class %d does not build exactly one byte array (found %d)" % (n, len(mine)), fn=WRITER)
                continue
            bb, ops = mine[0]
            exprs = [ex.operand(o) for o in ops]
            opset = set()
            for e in exprs:
                ex.ops(e, opset)
            lo = (1 << (7 * (n - 1) - 1)) if n > 1 else 0
            hi = want_c - 1
            tests = [lo, hi, lo + 1, (lo + hi) // 2] + [1 << i for i in range(0, 7 * n - 1)] + \
                    [((seed * 2654435761 + j * 40503) % (hi - lo + 1)) + lo for j in range(1, 201)]
            tests = sorted({t for t in tests if lo <= t <= hi} | {hi})
            bad = None
            if len(exprs) != n:
                bad = "emits %d prefix byte(s), the format requires %d" % (len(exprs), n)
            elif not opset <= LINEAR_OPS:
                bad = "prefix bytes use non-bitwise operators %s on size (cannot be verified exactly)" % sorted(opset - LINEAR_OPS)
            else:
                for sv in tests:
                    got = [ev(e, sv) for e in exprs]
                    if got != spec_bytes(n, sv):
                        bad = "for size 0x%x it emits %s, the format requires %s (byte expressions: %s)" % (
                            sv, [hex(x) if x is not None else "?" for x in got], [hex(x) for x in spec_bytes(n, sv)],
                            "; ".join(show(e) for e in exprs))
                        break
            R.check(bad is None, "R08.a.bytes", key + "|bytes", w.loc(bb),
                    "auto: class %d prefix = [%s] equals the closed form on %d sizes incl. all single-bit sizes and both "
                    "boundaries (bitwise-linear: exact)" % (n, "; ".join(show(e) for e in exprs), len(tests)),
                    "length class %d of the writer %s" % (n, bad), fn=WRITER)
        # empty atom and single byte literal classes
        lits = {}
        for bb, i, s in w.stmts():
            rv = s["rv"]
            if rv["k"] == "bin" and rv["op"] in ("Le", "Lt", "Eq"):
                for o in (rv["a"], rv["b"]):
                    e = ex.operand(o)
                    v = ev(e, 0) if not ex.has_size(e) else None
                    if v in (0x7F, 0x80):
                        lits[(rv["op"], v)] = bb
        R.check(("Le", 0x7F) in lits, "R08.a.literal", "R08.a|single-byte-class", WRITER,
                "auto: one-byte atoms <= 0x7F are written as themselves",
                "the writer's one-byte literal class is no longer `<= 0x7F`", fn=WRITER)
        empties = [ops for bb, ops in arrays if len(ops) == 1 and op_int(ops[0]) == 0x80]
        R.check(bool(empties), "R08.a.literal", "R08.a|empty-atom", WRITER, "auto: the empty atom is written as 0x80",
                "the writer no longer emits 0x80 for the empty atom", fn=WRITER)

    # ---------------- R08.b reader -----------------------------------------------------------
    nread = 0
    for path in (READER, READ_OP):
        for f in prog.family(path):
            for bb, key_sfx, ok, how, msg in read_checks(prog, f):
                nread += 1
                key = "R08.b|%s|read#%d" % (f.path, nread)
                if ok:
                    R.ob("R08.b", key, f.loc(bb), how, fn=f.path)
                else:
                    R.viol("R08.b", key, f.loc(bb), msg, fn=f.path)
    R.floor("R08.b", "stream reads in the reader", nread, 3)
    # size limit and literal classes of the reader
    rd_fam = prog.family(READER)
    limit_consts = []
    lit80 = lit7f = False
    for f in rd_fam:
        for bb, i, s in f.stmts():
            rv = s["rv"]
            if rv["k"] == "bin" and rv["op"] in ("Ge", "Gt", "Lt", "Le", "Eq"):
                for o in (rv["a"], rv["b"]):
                    v = op_int(o)
                    if v is not None and v >= 0x1000000:
                        limit_consts.append((rv["op"], v, f.loc(bb)))
                    if v == 0x80 and rv["op"] == "Eq":
                        lit80 = True
                    if v == 0x7F and rv["op"] == "Le":
                        lit7f = True
                # casts of constants (MAX_SINGLE_BYTE as u8)
            if rv["k"] == "cast" and op_int(rv["op"]) == 0x7F:
                lit7f = lit7f or any(s2["rv"]["k"] == "bin" and s2["rv"]["op"] == "Le" and
                                     s["pl"]["l"] in (op_local(s2["rv"]["a"]), op_local(s2["rv"]["b"])) for _, _, s2 in f.stmts())
    want = thresholds[-1] if thresholds else None
    okl = any(op == "Ge" and v == want for op, v, _ in limit_consts)
    R.check(okl, "R08.b.limit", "R08.b|size-limit", READER,
            "auto: reader rejects size >= 0x%x = the writer's last class threshold" % (want or 0),
            "reader's size limit %s does not equal the writer's last threshold %s: some lengths can be written but not read back "
            "(or read but never written)" % ([(op, hex(v)) for op, v, _ in limit_consts], hex(want) if want else None), fn=READER)
    R.check(lit80 and lit7f, "R08.b.literal", "R08.b|literal-classes", READER,
            "auto: reader maps 0x80 to the empty atom and bytes <= 0x7F to themselves",
            "reader's literal classes no longer mirror the writer's (0x80 -> empty atom: %s, <= 0x7F -> one-byte atom: %s)" % (lit80, lit7f),
            fn=READER)

    # ---------------- R08.h the reader has no classes of its own ------------------------------------------
    # (a) first-byte values singled out by the reader are the ones the writer emits as such: 0x80 (empty atom) and the pair
    #     marker 0xFF.  Any other byte >= 0x80 is a length prefix; answering it with a value of its own (e.g. 0xFE -> nil)
    #     turns input the consensus deserialiser rejects into a value.
    # (b) any OTHER table of size classes in the module (a function whose ordering comparisons use two or more of the
    #     writer's class boundaries) must consist of the writer's boundaries only (C_k or C_k - 1): a row that differs
    #     makes the reader reject or misread lengths the writer produces.
    def _const_of(f_, o):
        v = op_int(o)
        if v is not None:
            return v
        l = op_local(o)
        if l is None:
            return None
        ds = [s2 for _, _, s2 in f_.stmts() if s2["pl"]["l"] == l and not s2["pl"]["p"]]
        if len(ds) == 1 and ds[0]["rv"]["k"] in ("cast", "use") and ds[0]["rv"].get("op"):
            return op_int(ds[0]["rv"]["op"])
        return None
    ser_mod = READER.rsplit("::", 1)[0]
    writer_paths = {g.path for g in prog.family(WRITER)}
    nbyte = 0
    tset = set(thresholds) | {t - 1 for t in thresholds}
    for f in sorted(prog.fns.values(), key=lambda f: f.path):
        if not f.path.startswith(ser_mod + "::") or f.path in writer_paths:
            continue
        eqs, ords = [], []
        for bb, i, s2 in f.stmts():
            rv = s2["rv"]
            if rv["k"] != "bin" or rv["op"] not in ("Eq", "Ne", "Lt", "Le", "Gt", "Ge"):
                continue
            for o, other in ((rv["a"], rv["b"]), (rv["b"], rv["a"])):
                v = _const_of(f, o)
                if v is None or op_int(other) is not None:
                    continue
                oty = f.local_ty(op_local(other)) if op_local(other) is not None else ""
                if rv["op"] in ("Eq", "Ne") and v >= 0x80 and oty in ("u8", "u32") and v <= 0xFF:
                    eqs.append((v, "%s:%s" % (f.file, s2.get("line"))))
                elif rv["op"] not in ("Eq", "Ne") and v >= 0x40:
                    ords.append((v, "%s:%s" % (f.file, s2.get("line"))))
        for bb, b in enumerate(f.blocks):
            t = b["t"]
            if t["k"] == "switch" and not b.get("cleanup") and op_local(t["discr"]) is not None and f.local_ty(op_local(t["discr"])) == "u8":
                for v, _ in t["arms"]:
                    if isinstance(v, int) and 0x80 <= v <= 0xFF:
                        eqs.append((v, f.loc(bb)))
        for v, where in eqs:
            nbyte += 1
            R.check(v in (0x80, 0xFF), "R08.h", "R08.h|first-byte-class|%s|0x%02x" % (f.path, v), where,
                    "auto: the byte value singled out (0x%02x) is one the writer emits as such" % v,
                    "%s answers the byte 0x%02x with a case of its own: the writer only ever emits 0x80 (empty atom) and 0xFF (pair) as "
                    "single-byte classes, every other byte >= 0x80 starts a length prefix (0xFE.. are prefixes the consensus deserialiser "
                    "rejects) - malformed input would become a value" % (f.path, v), fn=f.path)
        vals = {v for v, _ in ords}
        if len(vals & tset) >= 2:
            for v, where in sorted(set(ords)):
                R.check(v in tset or v in (0x7F, 0x80), "R08.h", "R08.h|class-table|%s|0x%x" % (f.path, v), where,
                        "auto: boundary 0x%x of this second size-class table is one of the writer's" % v,
                        "%s holds a table of size classes whose boundary 0x%x is not a boundary of the writer's table (%s): lengths on one "
                        "side of it are written with one prefix width and expected with another" % (
                            f.path, v, ", ".join(hex(t) for t in thresholds)), fn=f.path)
    R.floor("R08.h", "first-byte values singled out by the reader", nbyte, 1)

    # ---------------- R08.d byte order of the integer conversion used for sizes ----------------------
    check_byte_order(prog, R)

    # ---------------- R08.c pre-order ------------------------------------------------------------
    it_fam = prog.family(ITER_NEXT)
    if it_fam:
        # the arm bodies may live in a private method of the iterator (e.g. `emit`): inline same-module helpers, never the
        # checked writer table itself
        import inline
        _n0 = it_fam[0]
        _bp = inline.default_pred(prog, _n0)
        _nv = inline.inlined(prog, _n0, pred=lambda g: _bp(g) and inline.same_module(_n0, g) and g.path not in (WRITER, READER), depth=2)
        it_fam = [_nv] + it_fam[1:] + [c for h in _nv.d.get("inlined", []) for c in prog.closures_of(h)]
    found = False
    for f in it_fam:
        fl = Flow(f)
        pushes = []
        for bb, t in f.calls():
            if (callee_of(t) or "").endswith("Vec::<T, A>::push") and t.get("gargs") and "SExpToByteOp" in t["gargs"][0]:
                # which field of the Pair does the pushed Object carry?
                l = op_local(t["args"][1])
                src = fl.back_pure([l]) if l is not None else set()
                fld = set()
                for b2, i2, s2 in f.stmts():
                    if s2["pl"]["l"] in src:
                        for o in rv_operands(s2["rv"]):
                            p = op_place(o)
                            if p and any(isinstance(e, dict) and e.get("dc") == "Pair" for e in p["p"]):
                                fld |= {str(e["f"]) for e in p["p"] if isinstance(e, dict) and "f" in e}
                if fld:
                    pushes.append((bb, sorted(fld)))
        if len(pushes) >= 2:
            found = True
            (b1, f1), (b2, f2) = pushes[0], pushes[1]
            order_ok = f1 == ["1"] and f2 == ["0"] and b2 in f.reachable(b1)
            marker = any(s["rv"]["k"] == "agg" and s["rv"].get("agg") == "array" and len(s["rv"]["ops"]) == 1 and
                         ev(Expr(f, set()).operand(s["rv"]["ops"][0]), 0) == 0xFF for _, _, s in f.stmts())
            R.check(order_ok and marker, "R08.c", "R08.c|pair-preorder", f.loc(b1),
                    "auto: Pair arm pushes rest then first (so first is written first) and emits the 0xFF marker",
                    "writer no longer serialises pairs as marker, first, rest (push order fields %s then %s, marker 0xFF present=%s)" % (
                        f1, f2, marker), fn=f.path)
    if not found:
        R.viol("R08.c", "R08.c|anchor-lost|pair-arm", ITER_NEXT, "anchor lost: the Pair arm of the serialising iterator")

    # ---------------- R08.g the reader accepts no wider length prefix than the consensus reader ---------------
    # Sibling constants: clvmr rejects a prefix whose size blob is longer than N bytes (`size_blob.len() > N`); the local
    # reader counts the leading one-bits of the first byte (its loop counter) and must reject the same widths - otherwise a
    # malformed over-long prefix becomes a value where the consensus reader reports an error.
    rdr = prog.fn(READER)
    cdec = cprog.fn("serde::parse_atom::decode_size_with_offset") if cprog is not None else None
    if rdr is None or cdec is None:
        R.viol("R08.g", "R08.g|anchor-lost", READER, "anchor lost: atom_from_stream or clvmr's decode_size_with_offset")
    else:
        def width_bound(fn, counter_pred):
            """Largest accepted width from a `x > K` / `x >= K` test on a width value that leads to an error."""
            ffl = Flow(fn)
            best = None
            for bb, _, st in fn.stmts():
                rv = st["rv"]
                if rv["k"] == "bin" and rv["op"] in ("Gt", "Ge") and op_int(rv["b"]) is not None and op_local(rv["a"]) is not None:
                    if counter_pred(fn, ffl, op_local(rv["a"])):
                        k = op_int(rv["b"]) if rv["op"] == "Gt" else op_int(rv["b"]) - 1
                        if 2 <= k <= 8:
                            best = k if best is None else min(best, k)
            return best

        def is_len(fn, ffl, l):
            for x in ffl.back_pure([l]):
                for _, _, s3 in fn.stmts():
                    if ffl.node(s3["pl"]) == x and s3["rv"]["k"] == "un" and s3["rv"]["op"] in ("PtrMetadata", "Len"):
                        return True
            return bool(ffl.derives_from_call(l, lambda c: c.endswith("::len")))

        def is_counter(fn, ffl, l):
            # a usize that is incremented by one in a loop
            for x in ffl.back_pure([l]):
                for _, _, s3 in fn.stmts():
                    if s3["rv"]["k"] == "bin" and s3["rv"]["op"].startswith("Add") and op_int(s3["rv"]["b"]) == 1 \
                            and op_local(s3["rv"]["a"]) == x and x in ffl.forward([s3["pl"]["l"]]):
                        return True
            return False
        cons_w = width_bound(cdec, is_len)
        loc_w = width_bound(rdr, is_counter)
        R.check(cons_w is not None and loc_w is not None and loc_w <= cons_w, "R08.g", "R08.g|prefix-width", "%s:%s" % (rdr.file, rdr.line),
                "auto: the local reader rejects length prefixes wider than %s byte(s); the consensus reader accepts at most %s" % (loc_w, cons_w),
                "atom_from_stream accepts length prefixes of up to %s byte(s) but the consensus reader (clvmr decode_size_with_offset) "
                "rejects anything wider than %s: an over-long prefix (first byte 0xFE) is decoded to a value instead of an error" % (
                    loc_w if loc_w is not None else "any number of", cons_w), fn=READER)

    # ---------------- R08.f chunks reach the stream one by one, in the iterator's order -------------------
    # The serialised form is the concatenation of the chunks in the order the iterator yields them.  sexp_to_stream must
    # hand every chunk to Stream::write in the iteration that produced it: on every path from `Some(chunk)` back to the
    # next call of next() there is a write whose data is that chunk.  Buffering chunks in a local and flushing later makes
    # the order depend on the buffering logic instead (reported even if that logic happened to be right).
    S2S = "classic::clvm::serialize::sexp_to_stream"
    s2 = prog.fn(S2S)
    if s2 is None:
        R.viol("R08.f", "R08.f|anchor-lost|sexp_to_stream", S2S, "anchor lost: sexp_to_stream")
    else:
        import inline
        _bp2 = inline.default_pred(prog, s2)
        s2v = inline.inlined(prog, s2, pred=lambda g: _bp2(g) and inline.same_module(s2, g) and g.path not in (WRITER, READER), depth=2)
        sfl = Flow(s2v)
        nexts = [(bb, t) for bb, t in s2v.calls() if (callee_of(t) or "") == ITER_NEXT or (callee_of(t) or "").endswith("Iterator>::next")
                 and "SExpToBytesIterator" in (callee_of(t) or "")]
        writes = [(bb, t) for bb, t in s2v.calls() if (callee_of(t) or "").endswith("Stream::write")]
        ok = False
        why = "no loop over the serialising iterator found"
        if nexts and writes:
            nb, nt = nexts[0]
            item_locals = sfl.forward([nt["dest"]["l"]])
            good_writes = []
            for wb, wt in writes:
                dl = op_local(wt["args"][1]) if len(wt["args"]) > 1 else None
                if dl is None:
                    continue
                src = sfl.back_pure([dl])
                growers = [c for x in src for _, tt in sfl.call_defs.get(x, []) for c in [callee_of(tt) or ""]
                           if c.rsplit("::", 1)[-1] in ("replace", "take", "split_off", "drain", "concat", "extend_from_slice", "append")]
                if nt["dest"]["l"] in src and not growers:
                    good_writes.append(wb)
            # Some edge of the match on next()'s result
            sw = s2v.term(nt["target"]) if nt.get("target") is not None else None
            some_b = None
            if sw and sw["k"] == "switch":
                arms = dict((v, tgt) for v, tgt in sw["arms"])
                some_b = arms.get(1)
            if some_b is None:
                why = "the result of next() is not matched on directly"
            elif not good_writes:
                why = "no Stream::write whose data is the chunk just yielded"
            else:
                ok = must_pass(s2v, some_b, [nb], good_writes)
                why = "a path from Some(chunk) back to next() does not write that chunk (it is buffered or dropped)"
        R.check(ok, "R08.f", "R08.f|chunk-written-in-its-iteration", "%s:%s" % (s2.file, s2.line),
                "auto: every chunk yielded by the serialising iterator is written to the stream before the next one is requested",
                "sexp_to_stream: %s - the serialised bytes are no longer the iterator's chunks in order by construction" % why, fn=S2S)

    # ---------------- R08.e every emitted chunk comes from the checked table ------------------------
    # R08.a proves the length-class table of atom_size_blob; that is only worth something if atom_size_blob is the ONLY
    # routine that turns an atom into prefix bytes.  Every chunk the iterator yields must therefore be (1) the result of
    # atom_size_blob, (2) a Blob payload replayed from the work stack, or (3) the constant pair marker.
    ALLOC = ("exchange_malloc", "into_vec", "box_new", "Box::<T>::new", "write_via_move", "Vec::<T>::new", "from_elem",
             "box_assume_init_into_vec_unsafe", "Box::<T>::new_uninit", "Box::<std::mem::MaybeUninit<T>, A>::write",
             "write_box_via_move", "into_boxed_slice")
    nchunks = 0
    for f in it_fam:
        fl = Flow(f)
        for bb, i, s in f.stmts():
            rv = s["rv"]
            if not (rv["k"] == "agg" and rv.get("agg") == "adt" and rv.get("variant") == "Some" and "Option" in rv.get("adt", "")):
                continue
            if "Vec<u8>" not in f.local_ty(s["pl"]["l"]):
                continue
            l = op_local(rv["ops"][0])
            if l is None:
                continue
            nchunks += 1
            src = fl.back_pure([l])
            callees = set()
            for x in src:
                for _, t in fl.call_defs.get(x, []):
                    callees.add(callee_of(t) or t.get("callee") or "?")
            replay = False
            for b2, i2, s2 in f.stmts():
                if fl.node(s2["pl"]) in src:
                    for o in rv_operands(s2["rv"]):
                        pp = op_place(o)
                        if pp and any(isinstance(e, dict) and e.get("dc") == "Blob" for e in pp["p"]):
                            replay = True
            key = "R08.e|chunk-source|%s" % ("table" if WRITER in callees else "replay" if replay else
                                              ",".join(sorted(c.rsplit("::", 1)[-1] for c in callees)) or "const")
            if WRITER in callees:
                R.ob("R08.e", key, "%s:%s" % (f.file, s.get("line", f.line)), "auto: chunk is the result of atom_size_blob", fn=f.path)
            elif replay:
                R.ob("R08.e", key, "%s:%s" % (f.file, s.get("line", f.line)), "auto: chunk replays a Blob payload from the work stack", fn=f.path)
            else:
                other = [c for c in callees if not any(a in c for a in ALLOC)]
                ints = set(const_ints(fl.consts_into([l])))
                R.check(not other and 0xFF in ints, "R08.e", key, "%s:%s" % (f.file, s.get("line", f.line)),
                        "auto: chunk is the constant pair marker",
                        "the serialising iterator yields a chunk produced by %s, not by atom_size_blob (whose length-class table "
                        "R08.a checks), a Blob replay or the constant pair marker: a second, unchecked atom encoder" % (
                            sorted(other) or "constants %s" % sorted(ints)), fn=f.path)
    R.floor("R08.e", "chunks yielded by the serialising iterator", nchunks, 3)
    # payloads pushed for replay must be the atom's own bytes
    for f in it_fam:
        fl = Flow(f)
        for bb, i, s in f.stmts():
            rv = s["rv"]
            if rv["k"] == "agg" and rv.get("agg") == "adt" and rv.get("variant") == "Blob":
                l = op_local(rv["ops"][0])
                is_accessor = lambda x: any((callee_of(t) or "").endswith("Allocator::atom") or (callee_of(t) or "").endswith("Allocator::node")
                                            for _, t in fl.call_defs.get(x, []))
                # the slice stops at the allocator accessor: how the node id was obtained (pop, ?, match) is not the payload's business
                src = fl.back_pure([l], stop=is_accessor) if l is not None else set()
                callees = set()
                for x in src:
                    for _, t in fl.call_defs.get(x, []):
                        callees.add(callee_of(t) or "?")
                from_atom = any(c.endswith("Allocator::atom") or c.endswith("Allocator::node") for c in callees)
                PURE = ("Allocator::atom", "Allocator::node", "::as_ref", "::to_vec", "::clone", "::deref", "::borrow", "::into", "::from", "::to_owned")
                other = [c for c in callees if not any(c.endswith(a) or a + ">" in c for a in PURE)]
                R.check(from_atom and not other, "R08.e", "R08.e|payload-is-atom-bytes", "%s:%s" % (f.file, s.get("line", f.line)),
                        "auto: the replayed payload is the allocator's atom bytes, copied",
                        "the payload pushed for replay is not the unmodified atom bytes (from_atom=%s, through %s)" % (from_atom, sorted(other)),
                        fn=f.path)
    return R.finalize()


class ByteExpr(Expr):
    """Expr whose leaves may also be bytes of an indexed slice parameter: `v[n + k]` -> ('byte', k)."""

    def __init__(self, fn, n_param, v_param=None):
        Expr.__init__(self, fn, set())
        self.n_param = n_param
        self.v_param = v_param

    def local(self, l, depth=0):
        if l == self.n_param:
            return ("c", 0)           # offsets are measured relative to n
        if self.v_param is not None and l == self.v_param:
            return ("size",)          # reuse the variable leaf for the u32 being stored
        if depth > 60:
            return ("?",)
        ds = self.defs.whole_defs(l)
        if len(ds) == 1 and ds[0][0] == "stmt":
            rv = ds[0][3]["rv"]
            if rv["k"] == "use":
                p = op_place(rv["op"])
                if p is not None:
                    idx = [e for e in p["p"] if isinstance(e, dict) and "idx" in e]
                    if idx:
                        off = ev(self.local(idx[0]["idx"], depth + 1), 0)
                        return ("byte", off)
                    cidx = [e for e in p["p"] if isinstance(e, dict) and "cidx" in e and not e.get("from_end")]
                    if cidx:
                        # element k of an array produced by uN::to_be_bytes / to_le_bytes
                        arr = self.array_of_call(p["l"], depth + 1)
                        if arr is not None and cidx[0]["cidx"] < len(arr):
                            return arr[cidx[0]["cidx"]]
        if len(ds) == 1 and ds[0][0] == "call":
            t = ds[0][2]
            c = callee_of(t) or ""
            if c.endswith("::from_be_bytes") or c.endswith("::from_le_bytes"):
                elems = self.array_elems(op_local(t["args"][0]), depth + 1)
                if elems is not None:
                    n = len(elems)
                    order = list(range(n)) if c.endswith("from_be_bytes") else list(reversed(range(n)))
                    e = None
                    for pos, i in enumerate(order):
                        term = ("Shl", ("cast", "u64", elems[i]), ("c", 8 * (n - 1 - pos)))
                        e = term if e is None else ("BitOr", e, term)
                    return e
        return Expr.local(self, l, depth)

    def array_elems(self, l, depth):
        """Element expressions of a local defined by one array aggregate."""
        if l is None:
            return None
        ds = self.defs.whole_defs(l)
        if len(ds) == 1 and ds[0][0] == "stmt":
            rv = ds[0][3]["rv"]
            if rv["k"] == "agg" and rv.get("agg") == "array":
                return [self.operand(o, depth + 1) for o in rv["ops"]]
            if rv["k"] == "use" and op_local(rv["op"]) is not None and not op_place(rv["op"])["p"]:
                return self.array_elems(op_local(rv["op"]), depth + 1)
        return None

    def array_of_call(self, l, depth):
        """Bytes of the integer x when l = x.to_be_bytes() / x.to_le_bytes() (4-byte integers)."""
        ds = self.defs.whole_defs(l)
        if len(ds) == 1 and ds[0][0] == "stmt" and ds[0][3]["rv"]["k"] == "use" and op_local(ds[0][3]["rv"]["op"]) is not None \
                and not op_place(ds[0][3]["rv"]["op"])["p"]:
            return self.array_of_call(op_local(ds[0][3]["rv"]["op"]), depth + 1)
        if len(ds) == 1 and ds[0][0] == "call":
            t = ds[0][2]
            c = callee_of(t) or ""
            if c.endswith("::to_be_bytes") or c.endswith("::to_le_bytes"):
                x = self.operand(t["args"][0], depth + 1)
                n = 4
                be = [("cast", "u8", ("Shr", x, ("c", 8 * (n - 1 - i)))) for i in range(n)]
                return be if c.endswith("to_be_bytes") else list(reversed(be))
        return None


def evb(e, size, bytes_):
    if e[0] == "byte":
        return bytes_.get(e[1])
    if e[0] in ("c", "size", "?"):
        return ev(e, size)
    if e[0] == "cast":
        v = evb(e[2], size, bytes_)
        if v is None:
            return None
        w = WIDTH.get(e[1])
        return v & ((1 << w) - 1) if w else v
    a, b = evb(e[1], size, bytes_), evb(e[2], size, bytes_)
    if a is None or b is None:
        return None
    return ev((e[0], ("c", a), ("c", b)), size)


def check_byte_order(prog, R):
    """Sibling rule: the 32-bit reader used when decoding length prefixes (get_u32) and its writer twin (set_u32)
    must both be big-endian, the order in which the serialiser emits the size bytes."""
    g = prog.fn("classic::clvm::__type_compatibility__::get_u32")
    s = prog.fn("classic::clvm::__type_compatibility__::set_u32")
    conv = prog.fn("classic::clvm::casts::int_from_bytes")
    rd = prog.family(READER)
    uses_conv = any(callee_of(t) == "classic::clvm::casts::int_from_bytes" for f in rd for _, t in f.calls())
    uses_get = conv is not None and any(callee_of(t) == "classic::clvm::__type_compatibility__::get_u32" for _, t in conv.calls())
    if not (uses_conv and uses_get) or g is None:
        R.info("reader no longer decodes sizes through int_from_bytes/get_u32; byte-order sibling rule not applicable")
        return
    sample = {0: 0x11, 1: 0x22, 2: 0x33, 3: 0x44}
    be = 0x11223344
    ge = ByteExpr(g, 2)
    rets = [st for _, _, st in g.stmts() if st["pl"]["l"] == 0 and not st["pl"]["p"]]
    val = None
    if len(rets) == 1:
        e = ge.rv_expr(rets[0]["rv"]) if hasattr(ge, "rv_expr") else None
        rv = rets[0]["rv"]
        if rv["k"] == "bin":
            e = (rv["op"].replace("WithOverflow", ""), ge.operand(rv["a"]), ge.operand(rv["b"]))
        elif rv["k"] == "use":
            e = ge.operand(rv["op"])
        val = evb(e, 0, sample) if e else None
    if val is None:
        val = evb(ge.local(0), 0, sample)      # result produced by a call (u32::from_be_bytes) or a plain expression
    R.check(val == be, "R08.d", "R08.d|get_u32-big-endian", "%s:%s" % (g.file, g.line),
            "auto: get_u32([11 22 33 44]) evaluates symbolically to 0x11223344 (most significant byte first, like the writer's "
            "size bytes)",
            "get_u32 assembles bytes 11 22 33 44 into %s instead of 0x11223344: length prefixes of four and more size bytes "
            "(atoms >= 1 MiB) and every >= 4-byte integer conversion are decoded wrongly" % (hex(val) if val is not None else "?"),
            fn=g.path)
    if s is not None:
        se = ByteExpr(s, 2, v_param=3)
        written = {}
        for bb, i, st in s.stmts():
            idx = [e for e in st["pl"]["p"] if isinstance(e, dict) and "idx" in e]
            if idx and st["pl"]["l"] == 1:
                off = ev(se.local(idx[0]["idx"]), 0)
                rv = st["rv"]
                e = ("cast", rv["ty"], se.operand(rv["op"])) if rv["k"] == "cast" else se.operand(rv["op"]) if rv["k"] == "use" else ("?",)
                if rv["k"] == "use" and e == ("?",) and op_place(rv["op"]) is not None and op_place(rv["op"])["p"]:
                    pp = op_place(rv["op"])
                    cidx = [x for x in pp["p"] if isinstance(x, dict) and "cidx" in x and not x.get("from_end")]
                    arr = se.array_of_call(pp["l"], 0) if cidx else None
                    if arr is not None and cidx[0]["cidx"] < len(arr):
                        e = arr[cidx[0]["cidx"]]
                written[off] = ev(e, be)
        want = {0: 0x11, 1: 0x22, 2: 0x33, 3: 0x44}
        R.check(written == want, "R08.d", "R08.d|set_u32-inverse-of-get_u32", "%s:%s" % (s.file, s.line),
                "auto: set_u32(0x11223344) writes 11 22 33 44 — the inverse of get_u32",
                "set_u32 and get_u32 disagree on byte order: set_u32(0x11223344) writes %s" % (
                    {k: hex(v) if v is not None else None for k, v in sorted(written.items(), key=lambda x: str(x[0]))}), fn=s.path)
