"""Order taint (R05.a hash order, R05.b digest order).

A *source* is a call producing an iterator over an unordered (std HashMap /
HashSet) or digest-ordered (BTreeMap/BTreeSet keyed by a tree hash) container;
sources are found by the TYPE of the produced value, so every spelling
(`for x in &m`, `m.iter()`, `m.keys().map(..)`, `a.union(&b)`) is found.
Every consumer of the stream is classified:

  clean          order cannot be observed (set/map insertion, counting, any/all,
                 emptiness test, unique-key search, early exit with an
                 element-independent value)
  error-choice   only *which error* is reported may vary; nothing is emitted
  sanitised      collected into a Vec that is totally re-sorted before any use
  sensitive      anything else

A site with a `sensitive` consumer must be listed in tables/hash_order.json
(class + reason); otherwise it is a violation."""
import json
import os
import re
from collections import defaultdict

from flow import Flow
from mir import callee_of, op_local, op_place, op_const, rv_operands

VERIF = os.path.dirname(os.path.dirname(os.path.abspath(__file__)))

HASHIT = re.compile(r"std::collections::hash_(map|set)::(Iter|IterMut|IntoIter|Keys|Values|ValuesMut|IntoKeys|"
                    r"IntoValues|Drain|Union|Intersection|Difference|SymmetricDifference|ExtractIf)\b")
BTIT = re.compile(r"std::collections::btree_(map|set)::(Iter|IterMut|IntoIter|Keys|Values|ValuesMut|IntoKeys|"
                  r"IntoValues|Range|RangeMut|Union|Intersection|Difference|SymmetricDifference|ExtractIf)\b")
SEQIT = re.compile(r"(std::slice::Iter|std::slice::IterMut|std::vec::IntoIter|std::vec::Drain)\b")

SETLIKE_TY = re.compile(r"^(&mut |&)?std::collections::(HashMap|HashSet|BTreeMap|BTreeSet)<")
SETLIKE_IN_RESULT = re.compile(r"^std::(result::Result|option::Option)<std::collections::(HashMap|HashSet|BTreeMap|BTreeSet)<")

NEUTRAL_ADAPTORS = ("into_iter", "iter", "map", "filter", "filter_map", "flat_map", "flatten", "cloned", "copied",
                    "inspect", "chain", "peekable", "fuse", "by_ref", "borrow_mut", "deref_mut", "deref", "borrow")
POSITIONAL_ADAPTORS = ("enumerate", "zip", "skip", "take", "step_by", "rev", "skip_while", "take_while", "map_while",
                       "scan", "windows", "chunks", "array_chunks")
CLEAN_REDUCERS = ("count", "any", "all", "sum", "min", "max", "len", "is_subset", "is_superset", "is_disjoint",
                  "contains", "is_empty", "size_hint")
SENSITIVE_REDUCERS = ("find", "find_map", "position", "rposition", "last", "nth", "fold", "try_fold", "for_each",
                      "try_for_each", "reduce", "min_by", "max_by", "min_by_key", "max_by_key", "eq", "cmp",
                      "partial_cmp", "lt", "le", "gt", "ge", "ne", "unzip", "partition", "product", "is_sorted")
SET_MUTATORS = ("insert", "remove", "entry", "extend", "or_insert", "or_insert_with", "or_default", "and_modify",
                "retain", "clear", "get_mut", "get_or_insert_with", "take", "replace")
VEC_GROWERS = ("push", "extend", "append", "extend_from_slice", "push_str", "push_back", "push_front", "insert")
SORTS = ("sort", "sort_by", "sort_by_key", "sort_unstable", "sort_unstable_by", "sort_unstable_by_key",
         "sort_by_cached_key")
BENIGN_MUT_TYPES = ("clvm_rs::Allocator", "clvmr::Allocator")
DIGEST_FNS = ("compiler::clvm::sha256tree", "compiler::clvm::sha256tree_from_atom",
              "classic::clvm_tools::sha256tree::sha256tree", "sha2::Digest::finalize", "sha2::Digest::digest")
PURE_STD_PREFIXES = ("std::", "core::", "alloc::", "<", "num_bigint::", "num_traits::", "num::", "hex::",
                     "unicode_segmentation::", "regex::", "hashlink::", "binascii::")


def last_seg(c):
    c = c or ""
    c = c.split("::{closure")[0]
    return c.rsplit("::", 1)[-1]


class Finding:
    def __init__(self, cls, what, site):
        self.cls, self.what, self.site = cls, what, site

    def __repr__(self):
        return "%s:%s@%s" % (self.cls, self.what, self.site)


class Analyzer:
    def __init__(self, prog):
        self.prog = prog
        self.flows = {}
        self._gensym_reach = None
        self._summ = {}

    def flow(self, f):
        if f.path not in self.flows:
            self.flows[f.path] = Flow(f)
        return self.flows[f.path]

    def reaches_gensym(self, path):
        if self._gensym_reach is None:
            # reverse reachability from gensym
            callers = self.prog.callers()
            seen = {"compiler::gensym::gensym"}
            work = ["compiler::gensym::gensym"]
            # closures: a function creating a closure that reaches gensym also reaches it
            creates = defaultdict(set)
            for f in self.prog.fns.values():
                if f.root != f.path:
                    creates[f.path].add(f.parent if f.parent in self.prog.fns else f.root)
            while work:
                x = work.pop()
                for (c, _bb) in callers.get(x, []):
                    if c not in seen:
                        seen.add(c)
                        work.append(c)
                for c in creates.get(x, ()):
                    if c not in seen:
                        seen.add(c)
                        work.append(c)
            self._gensym_reach = seen
        return path in self._gensym_reach

    # ------------------------------------------------------------------
    def sources(self, kind_re):
        out = []
        for f in sorted(self.prog.fns.values(), key=lambda f: f.path):
            for bb, t in f.calls():
                dty = f.local_ty(t["dest"]["l"])
                if kind_re.search(dty) and not any(kind_re.search(a) for a in t.get("arg_tys", [])):
                    out.append((f, bb, t))
        return out

    def describe_receiver(self, f, t):
        """Stable description of the container iterated: field name or local name."""
        fl = self.flow(f)
        if not t["args"]:
            return "?"
        l = op_local(t["args"][0])
        seen = set()
        steps = 0
        while l is not None and l not in seen and steps < 10:
            seen.add(l)
            steps += 1
            if l >= 0 and f.local_name(l):
                if os.environ.get("VERIF_C05_KEYS_BY_NAME"):
                    return f.local_name(l)
                # a named local: described by its container type, never by its source name (renames must not void a line)
                ty = f.local_ty(l).replace("&mut ", "").replace("&", "").strip()
                head = ty.split("<")[0].rsplit("::", 1)[-1]
                inner = ty[ty.index("<") + 1:ty.rindex(">")] if "<" in ty and ">" in ty else ""
                short = ",".join(x.strip().split("<")[0].rsplit("::", 1)[-1] for x in inner.split(",")[:2]) if inner else ""
                return "<%s%s>" % (head, ("<" + short + ">") if short else "")
            nxt = None
            # direct def
            for bb, i, s in f.stmts():
                if s["pl"]["l"] == l and not s["pl"]["p"]:
                    for o in rv_operands(s["rv"]):
                        p = op_place(o)
                        if p:
                            flds = [e["f"] for e in p["p"] if isinstance(e, dict) and "f" in e]
                            if flds and not str(flds[-1]).isdigit():
                                return "." + str(flds[-1])
                            c = None
                            nxt = fl.node(p)
                        c = op_const(o)
                        if c and "static" in c:
                            return c["static"].split("::")[-1]
            if nxt is None:
                for bb, tt in fl.call_defs.get(l, []):
                    if tt["args"]:
                        p = op_place(tt["args"][0])
                        if p:
                            nxt = fl.node(p)
                        cn = last_seg(callee_of(tt))
                        if cn not in ("deref", "borrow", "as_ref", "clone", "deref_mut", "borrow_mut", "unwrap"):
                            return cn + "()"
            l = nxt
        if l is not None and l < 0:
            ups = f.d.get("upvars", [])
            k = -l - 1
            for u in ups:
                flds = [e["f"] for e in u["pl"]["p"] if isinstance(e, dict) and "f" in e]
                if flds and str(flds[0]) == str(k):
                    return u["name"]
            return "upvar%d" % k
        return "?"

    # ------------------------------------------------------------------
    def classify_stream(self, f, seeds, depth=0, what="stream"):
        """Classify every consumer of the stream values held in `seeds`."""
        fl = self.flow(f)
        findings = []
        stream = set(seeds)
        # grow the set of locals holding (adaptors of) the stream
        changed = True
        adaptor_calls = []
        while changed:
            changed = False
            for bb, i, s in f.stmts():
                d = fl.node(s["pl"])
                if d in stream or s["pl"]["p"]:
                    continue
                rv = s["rv"]
                if rv["k"] in ("use", "ref", "cast"):
                    for o in rv_operands(rv):
                        p = op_place(o)
                        if p and fl.node(p) in stream and not [e for e in p["p"] if e != "*"]:
                            stream.add(d)
                            changed = True
            for bb, t in f.calls():
                d = fl.node(t["dest"])
                if d in stream:
                    continue
                argl = [fl.node(op_place(a)) for a in t["args"] if op_place(a)]
                if not any(a in stream for a in argl):
                    continue
                dty = fl.ty(d)
                name = last_seg(t.get("callee") or callee_of(t))
                if self.is_stream_ty(dty) and (name in NEUTRAL_ADAPTORS or name in POSITIONAL_ADAPTORS):
                    stream.add(d)
                    adaptor_calls.append((bb, t, name))
                    changed = True
        for bb, t, name in adaptor_calls:
            if name in POSITIONAL_ADAPTORS:
                findings.append(Finding("sensitive", "positional adaptor %s" % name, f.loc(bb)))
            for a in t["args"][1:]:
                findings.extend(self.closure_effects(f, a, bb, "adaptor " + name, depth))
        # consumers
        for bb, t in f.calls():
            argn = [(i, fl.node(op_place(a))) for i, a in enumerate(t["args"]) if op_place(a)]
            hit = [i for i, a in argn if a in stream]
            if not hit:
                continue
            d = fl.node(t["dest"])
            if d in stream:
                continue
            decl = t.get("callee") or ""
            name = last_seg(decl or callee_of(t))
            c = callee_of(t) or ""
            dty = fl.ty(d)
            if name == "next" or name == "next_back":
                findings.extend(self.classify_next(f, bb, t, stream, depth))
            elif name in ("collect", "from_iter"):
                findings.extend(self.classify_collect(f, bb, t, dty, depth))
            elif name in ("extend", "append") and len(t["args"]) >= 2 and 0 not in hit:
                rty = t["arg_tys"][0]
                if SETLIKE_TY.search(rty):
                    findings.append(Finding("clean", "extend into %s" % rty.split("<")[0].split("::")[-1], f.loc(bb)))
                else:
                    root = self.root_local(f, op_local(t["args"][0]))
                    findings.extend(self.classify_collection(f, root, bb, depth, "extended Vec"))
            elif name in CLEAN_REDUCERS and (decl.startswith("std::iter::") or decl.startswith("std::collections::")
                                             or c.startswith("std::") or c.startswith("<std::")):
                findings.append(Finding("clean", name, f.loc(bb)))
                for a in t["args"][1:]:
                    findings.extend(self.closure_effects(f, a, bb, name, depth))
            elif name in ("for_each", "try_for_each") and len(t["args"]) >= 2:
                # a loop written as a closure: judged by the closure's effects on captured state
                eff = []
                for a in t["args"][1:]:
                    eff.extend(self.closure_effects(f, a, bb, name, depth))
                findings.extend(eff or [Finding("clean", "%s closure has no order-observable effect" % name, f.loc(bb))])
                if name == "try_for_each":
                    findings.append(Finding("error-choice", "try_for_each stops at the first error", f.loc(bb)))
            elif name in SENSITIVE_REDUCERS:
                findings.append(Finding("sensitive", name, f.loc(bb)))
            elif name in ("drop", "drop_in_place", "clone", "size_hint", "fmt"):
                if name == "fmt":
                    findings.append(Finding("sensitive", "formatted", f.loc(bb)))
            elif t.get("callee_local") or t.get("target_local"):
                findings.append(Finding("sensitive", "%s passed to %s" % (what, c), f.loc(bb)))
            else:
                findings.append(Finding("sensitive", "%s consumed by %s" % (what, c or decl), f.loc(bb)))
        if 0 in stream:
            # a closure handing the stream to flat_map / map: the adaptor's result carries the hash-ordered elements, so
            # the verdict is the verdict on its consumers in the function that built the closure
            handled = False
            if f.kind == "Closure" and depth < 4:
                for g, bb2, t2 in self.closure_use_sites(f):
                    nm2 = last_seg(t2.get("callee") or callee_of(t2))
                    gfl = self.flow(g)
                    d2 = gfl.node(t2["dest"])
                    if nm2 in ("flat_map", "map", "filter_map", "flatten", "and_then", "then") and self.is_stream_ty(gfl.ty(d2)):
                        handled = True
                        findings.extend(self.classify_stream(g, {d2}, depth + 1, what + " (through %s)" % nm2))
            if not handled:
                findings.append(Finding("sensitive", "%s returned" % what, "%s:%s" % (f.file, f.line)))
        # stored in an aggregate
        for bb, i, s in f.stmts():
            if s["rv"]["k"] == "agg" and s["rv"].get("agg") in ("adt", "tuple"):
                for o in s["rv"]["ops"]:
                    p = op_place(o)
                    if p and fl.node(p) in stream:
                        d = fl.node(s["pl"])
                        if d == 0 or s["rv"].get("agg") == "adt":
                            findings.append(Finding("sensitive", "%s stored in %s" % (what, s["rv"].get("adt", "tuple")),
                                                    "%s:%s" % (f.file, s.get("line"))))
        if not findings:
            findings.append(Finding("clean", "unused", "%s:%s" % (f.file, f.line)))
        return findings

    def closure_use_sites(self, clo):
        """(function, block, call) triples where the closure `clo` is passed as an argument."""
        out = []
        for g in self.prog.family(clo.root):
            if g is clo:
                continue
            holders = set()
            for _, _, st in g.stmts():
                if st["rv"]["k"] == "agg" and st["rv"].get("agg") == "closure" and st["rv"].get("closure") == clo.path:
                    holders.add(st["pl"]["l"])
            for bb, t in g.calls():
                for a in t["args"]:
                    c = op_const(a) if a.get("k") == "const" else None
                    if (c and c.get("closure") == clo.path) or (op_local(a) is not None and op_local(a) in holders):
                        out.append((g, bb, t))
        return out

    def is_stream_ty(self, ty):
        return bool(HASHIT.search(ty) or BTIT.search(ty) or SEQIT.search(ty)
                    or ty.startswith("std::iter::") or ty.startswith("&mut std::iter::")
                    or ty.startswith("&mut std::collections::") or ty.startswith("&mut std::slice::Iter")
                    or ty.startswith("&mut std::vec::IntoIter") or ty.startswith("upvar:"))

    def root_local(self, f, l):
        """Follow refs/moves back to the owning local."""
        fl = self.flow(f)
        seen = set()
        while l is not None and l not in seen:
            seen.add(l)
            nxt = None
            for bb, i, s in f.stmts():
                if fl.node(s["pl"]) == l and not s["pl"]["p"] and s["rv"]["k"] in ("ref", "use", "cast"):
                    for o in rv_operands(s["rv"]):
                        p = op_place(o)
                        if p:
                            nxt = fl.node(p)
            if nxt is None:
                # deref()/deref_mut()/as_mut() style calls
                for bb, t in fl.call_defs.get(l, []):
                    if last_seg(callee_of(t)) in ("deref", "deref_mut", "as_mut", "as_ref", "borrow_mut", "borrow",
                                                  "as_mut_slice", "as_slice") and t["args"]:
                        p = op_place(t["args"][0])
                        if p:
                            nxt = fl.node(p)
            if nxt is None:
                return l
            l = nxt
        return l

    # ------------------------------------------------------------------
    def classify_collect(self, f, bb, t, dty, depth):
        if SETLIKE_TY.search(dty):
            return [Finding("clean", "collect into %s" % dty.split("<")[0].split("::")[-1], f.loc(bb))]
        if SETLIKE_IN_RESULT.search(dty):
            return [Finding("error-choice", "collect into Result/Option of a set/map", f.loc(bb))]
        d = self.flow(f).node(t["dest"])
        return self.classify_collection(f, d, bb, depth, "collected %s" % dty.split("<")[0].split("::")[-1])

    def classify_collection(self, f, root, at_bb, depth, what):
        """An order-tainted sequence held in local `root` (a Vec/String built in
        hash order).  Acceptable iff totally sorted before any other use, or if
        every use is itself order-insensitive."""
        fl = self.flow(f)
        if depth > 3:
            return [Finding("sensitive", "%s (nesting too deep)" % what, f.loc(at_bb))]
        if root is None:
            return [Finding("sensitive", what + " (no owner)", f.loc(at_bb))]
        if root == 0 or (0 < root <= f.argc):
            return [Finding("sensitive", "%s escapes through %s" % (what, "the return value" if root == 0 else
                                                                      "parameter _%d" % root), f.loc(at_bb))]
        # all aliases of the collection
        aliases = {root}
        changed = True
        while changed:
            changed = False
            for bb, i, s in f.stmts():
                d = fl.node(s["pl"])
                if d in aliases or s["pl"]["p"]:
                    continue
                if s["rv"]["k"] in ("ref", "use", "cast"):
                    for o in rv_operands(s["rv"]):
                        p = op_place(o)
                        if p and fl.node(p) in aliases and not [e for e in p["p"] if e != "*"]:
                            aliases.add(d)
                            changed = True
            for bb, t in f.calls():
                d = fl.node(t["dest"])
                if d in aliases:
                    continue
                if last_seg(callee_of(t)) in ("deref", "deref_mut", "as_mut", "as_ref", "as_slice", "as_mut_slice",
                                              "borrow", "borrow_mut") and t["args"]:
                    p = op_place(t["args"][0])
                    if p and fl.node(p) in aliases:
                        aliases.add(d)
                        changed = True
        uses = []
        sorts = []
        for bb, t in f.calls():
            argn = [fl.node(op_place(a)) for a in t["args"] if op_place(a)]
            if not any(a in aliases for a in argn):
                continue
            if fl.node(t["dest"]) in aliases:
                continue
            name = last_seg(t.get("callee") or callee_of(t))
            if name in SORTS and (callee_of(t) or "").startswith("std::"):
                sorts.append((bb, t))
            else:
                uses.append((bb, t, name))
        findings = []
        moved_to_ret = False
        for bb, i, s in f.stmts():
            for o in rv_operands(s["rv"]):
                p = op_place(o)
                if p and fl.node(p) in aliases and fl.node(s["pl"]) not in aliases:
                    if s["rv"]["k"] == "agg" or fl.node(s["pl"]) == 0:
                        uses.append((bb, None, "stored/returned"))
        sort_blocks = [bb for bb, _ in sorts]
        # a sort with a comparator is a sanitiser only if the comparator is not itself order-derived;
        # digest-field comparators are handled by the digest rule's `digest fields` check
        for bb, t, name in uses:
            # benign growth / size queries
            if t is not None and name in VEC_GROWERS + ("len", "is_empty", "capacity", "reserve", "with_capacity",
                                                        "drop", "drop_in_place"):
                continue
            dominated = any(f.dominates(sb, bb) and sb != bb for sb in sort_blocks)
            if dominated:
                continue
            if t is not None and name in ("iter", "into_iter", "iter_mut", "drain"):
                sub = self.classify_stream(f, [fl.node(t["dest"])], depth + 1, what="hash-ordered " + what)
                findings.extend(sub)
                continue
            if t is not None and name in ("contains", "clone", "to_vec", "to_owned"):
                if name in ("clone", "to_vec", "to_owned"):
                    findings.extend(self.classify_collection(f, fl.node(t["dest"]), bb, depth + 1, what + " (copy)"))
                continue
            findings.append(Finding("sensitive", "%s used by %s before/without a sort" % (
                what, (callee_of(t) if t is not None else name)), f.loc(bb)))
        if sorts and not findings:
            findings.append(Finding("sanitised", "%s sorted (%s) before every other use" % (
                what, last_seg(callee_of(sorts[0][1]))), f.loc(sorts[0][0])))
            self.last_sorts = getattr(self, "last_sorts", []) + [(f, bb, t) for bb, t in sorts]
        elif not findings:
            findings.append(Finding("clean", "%s only consumed order-insensitively" % what, f.loc(at_bb)))
        return findings

    # ------------------------------------------------------------------
    def loop_body(self, f, next_bb, some_target):
        can_reach_next = {b for b in range(len(f.blocks)) if not f.is_cleanup(b) and next_bb in f.reachable(b)}
        body = f.reachable(some_target, avoid=[next_bb]) & can_reach_next
        return body

    def classify_next(self, f, bb, t, stream, depth):
        fl = self.flow(f)
        x = fl.node(t["dest"])
        # find the discriminant switch
        nb = t.get("target")
        some_t = none_t = None
        steps = 0
        while nb is not None and steps < 4:
            steps += 1
            blk = f.blocks[nb]
            tt = blk["t"]
            disc = [s["pl"]["l"] for s in blk["s"] if s["rv"]["k"] == "discr" and fl.node(s["rv"]["pl"]) == x]
            if disc and tt["k"] == "switch" and op_local(tt["discr"]) in disc:
                arms = dict((v, g) for v, g in tt["arms"])
                some_t = arms.get(1, tt["otherwise"] if 1 not in arms else None)
                none_t = arms.get(0, tt["otherwise"] if 0 not in arms else None)
                break
            if tt["k"] == "goto":
                nb = tt["target"]
                continue
            break
        if some_t is None:
            # result used some other way: emptiness test?
            xs = {x}
            for b2, i2, s2 in f.stmts():
                if s2["rv"]["k"] in ("ref", "use") and not s2["pl"]["p"]:
                    p2 = op_place(rv_operands(s2["rv"])[0]) if rv_operands(s2["rv"]) else None
                    if p2 and fl.node(p2) in xs and not p2["p"]:
                        xs.add(fl.node(s2["pl"]))
            uses = [last_seg(callee_of(tt)) for b2, tt in f.calls()
                    if any(fl.node(op_place(a)) in xs for a in tt["args"] if op_place(a))]
            if uses and all(u in ("is_some", "is_none") for u in uses):
                return [Finding("clean", "next() used as emptiness test", f.loc(bb))]
            return [Finding("sensitive", "next() takes the first element in container order", f.loc(bb))]
        body = self.loop_body(f, bb, some_t)
        if not body:
            return [Finding("sensitive", "single next(): first element in container order", f.loc(bb))]
        return self.loop_effects(f, bb, x, body, none_t, depth)

    def elem_locals(self, f, x, body):
        """Locals (pure data dependence) derived from the element inside the loop body."""
        fl = self.flow(f)
        derived = {x}
        changed = True
        while changed:
            changed = False
            for b in body:
                blk = f.blocks[b]
                for s in blk["s"]:
                    d = fl.node(s["pl"])
                    if d in derived:
                        continue
                    for o in rv_operands(s["rv"]):
                        p = op_place(o)
                        if p and fl.node(p) in derived:
                            derived.add(d)
                            changed = True
                tt = blk["t"]
                if tt["k"] == "call":
                    d = fl.node(tt["dest"])
                    hit = any(fl.node(op_place(a)) in derived for a in tt["args"] if op_place(a))
                    if d not in derived and hit:
                        derived.add(d)
                        changed = True
                    if hit:
                        # out-parameters: whatever a `&mut` argument points to may now hold element data
                        tys = tt.get("arg_tys", [])
                        for i, a in enumerate(tt["args"]):
                            if i < len(tys) and tys[i].startswith("&mut ") and op_place(a):
                                r = self.root_local(f, fl.node(op_place(a)))
                                for z in (r, fl.node(op_place(a))):
                                    if z is not None and z not in derived and z != x:
                                        derived.add(z)
                                        changed = True
        return derived

    def outer_locals(self, f, body):
        """Locals assigned (whole) somewhere outside the loop body, parameters and
        the return place: state that survives an iteration."""
        fl = self.flow(f)
        out = set(range(0, f.argc + 1))
        for b, blk in enumerate(f.blocks):
            if b in body or blk.get("cleanup"):
                continue
            for s in blk["s"]:
                out.add(fl.node(s["pl"]))
            if blk["t"]["k"] == "call":
                out.add(fl.node(blk["t"]["dest"]))
        return out

    def loop_effects(self, f, next_bb, x, body, none_t, depth):
        fl = self.flow(f)
        findings = []
        elem = self.elem_locals(f, x, body)
        elem_seed = {x}
        outer = self.outer_locals(f, body)
        site = f.loc(next_bb)
        tainted_vecs = set()
        for b in sorted(body):
            blk = f.blocks[b]
            # assignments to surviving state
            for s in blk["s"]:
                d = fl.node(s["pl"])
                if d in outer and d != x:
                    srcs = [fl.node(op_place(o)) for o in rv_operands(s["rv"]) if op_place(o)]
                    if any(y in elem for y in srcs):
                        if d == 0:
                            continue   # handled as an exit value
                        # writing through a reference obtained in the loop is an effect on its referent
                        findings.append(Finding("sensitive", "outer variable _%s%s assigned from the element" % (
                            d, "(%s)" % f.local_name(d) if d >= 0 and f.local_name(d) else ""), "%s:%s" % (f.file, s.get("line"))))
                elif s["pl"]["p"] and s["pl"]["p"][0] == "*" and d not in outer:
                    # store through a pointer created inside the loop
                    root = self.root_local(f, d)
                    if root in outer and any(fl.node(op_place(o)) in elem for o in rv_operands(s["rv"]) if op_place(o)):
                        findings.append(Finding("sensitive", "store through reference to outer _%s" % root,
                                                "%s:%s" % (f.file, s.get("line"))))
            tt = blk["t"]
            if tt["k"] != "call":
                continue
            c = callee_of(tt) or ""
            decl = tt.get("callee") or ""
            name = last_seg(decl or c)
            tys = tt.get("arg_tys", [])
            dn = fl.node(tt["dest"])
            if dn in outer and dn != 0 and dn not in elem_seed and self._assigned_outside(f, body, dn) \
                    and any(fl.node(op_place(a)) in elem for a in tt["args"] if op_place(a)):
                findings.append(Finding("sensitive", "outer variable _%s%s reassigned per element from %s" % (
                    dn, "(%s)" % f.local_name(dn) if dn >= 0 and f.local_name(dn) else "", c), f.loc(b)))
            mut_args = [(i, a) for i, a in enumerate(tt["args"]) if i < len(tys) and tys[i].startswith("&mut ")]
            outer_mut = []
            for i, a in mut_args:
                l = op_local(a)
                if l is None:
                    continue
                root = self.root_local(f, fl.node(op_place(a)))
                if root in outer or root in stream_like(f, fl, root):
                    outer_mut.append((i, a, root, tys[i]))
            if decl == "compiler::gensym::gensym" or c == "compiler::gensym::gensym":
                findings.append(Finding("sensitive", "gensym called per element (names depend on visit order)", f.loc(b)))
                continue
            local_callee = bool(tt.get("callee_local") or tt.get("target_local"))
            if local_callee:
                targets = self.prog.call_targets(tt)
                if any(self.reaches_gensym(x2) for x2 in targets):
                    findings.append(Finding("sensitive", "%s (reaches gensym) called per element" % c, f.loc(b)))
            # iterator protocol on the loop's own iterator
            if name in ("next", "into_iter", "iter") and not local_callee and not outer_mut_other(outer_mut, x, f, fl):
                if name == "next" and b != next_bb:
                    # nested loop over something else: effects checked by its own body (it is inside ours)
                    pass
                continue
            for i, a, root, ty in outer_mut:
                inner = ty[len("&mut "):]
                if any(inner.startswith(bt) for bt in BENIGN_MUT_TYPES):
                    continue
                if SETLIKE_TY.search(ty) and name in SET_MUTATORS and c.startswith("std::collections::"):
                    findings.extend(self.set_insert_finding(f, b, tt, name, ty, elem, x, body))
                    continue
                if (inner.startswith("std::vec::Vec<") or inner.startswith("std::string::String")
                        or inner.startswith("std::collections::VecDeque<")) and name in VEC_GROWERS and c.startswith("std::"):
                    tainted_vecs.add(root)
                    continue
                if HASHIT.search(ty) or BTIT.search(ty) or SEQIT.search(ty) or inner.startswith("std::iter::"):
                    continue   # advancing some iterator
                if local_callee:
                    ok, why = self.insert_only(self.prog.call_targets(tt), i, 0)
                    if ok:
                        findings.append(Finding("clean", "%s only inserts into sets/maps of its &mut argument" % c, f.loc(b)))
                        continue
                    findings.append(Finding("sensitive", "%s mutates outer state (%s) per element: %s" % (c, ty[:50], why), f.loc(b)))
                    continue
                if name in ("write_str", "write_fmt", "write", "write_all", "push_str"):
                    findings.append(Finding("sensitive", "writes to an outer stream per element (%s)" % c, f.loc(b)))
                    continue
                findings.append(Finding("sensitive", "outer state %s mutated by %s per element" % (ty[:50], c), f.loc(b)))
            # interior mutability
            if name in ("borrow_mut", "replace", "set", "swap", "replace_with", "get_mut", "lock", "write") and \
                    ("std::cell::" in c or "std::sync::" in c):
                findings.append(Finding("sensitive", "interior mutation %s per element" % c, f.loc(b)))
        # order-tainted sequences built by the loop
        for root in sorted(tainted_vecs):
            findings.extend(self.classify_collection(f, root, next_bb, depth + 1,
                                                     "Vec _%s%s filled in container order" % (
                                                         root, "(%s)" % f.local_name(root) if root >= 0 and f.local_name(root) else "")))
        # early exits
        findings.extend(self.exit_findings(f, next_bb, x, body, none_t, elem))
        if not findings:
            findings.append(Finding("clean", "loop body has no order-observable effect", site))
        return findings

    def _assigned_outside(self, f, body, d):
        """Is local d (whole) also assigned outside the loop body AND named or
        used after the loop?  (temporaries re-created per iteration are not state)"""
        fl = self.flow(f)
        if d >= 0 and f.local_name(d):
            return True
        return False

    def set_insert_finding(self, f, b, tt, name, ty, elem, x, body=None):
        fl = self.flow(f)
        cont = ty.split("<")[0].split("::")[-1]
        is_map = cont in ("HashMap", "BTreeMap")
        if is_map and name == "insert" and len(tt["args"]) >= 3:
            kp, vp = op_place(tt["args"][1]), op_place(tt["args"][2])
            k_elem = kp is not None and fl.node(kp) in elem
            v_elem = vp is not None and fl.node(vp) in elem
            if not k_elem and v_elem:
                return [Finding("sensitive", "insert under a loop-invariant key: last element in container order wins", f.loc(b))]
            if k_elem and body is not None and not self.is_key_projection(f, fl.node(kp), x, body) \
                    and self.is_value_projection(f, fl.node(kp), x, body):
                return [Finding("sensitive", "map inversion: key taken from the VALUE part of the element (colliding values: last wins)", f.loc(b))]
            if k_elem and body is not None:
                xty = fl.ty(x)
                if "(&" in xty or "Option<(" in xty:
                    parts = self.elem_parts(f, fl.node(kp), x, body)
                    if parts == {"value"}:
                        return [Finding("sensitive", "map insert keyed by something computed from the VALUE of the iterated entry only "
                                        "(e.g. a hash of it): entries whose values collide overwrite each other in container order", f.loc(b))]
        return [Finding("clean", "%s on %s" % (name, cont), f.loc(b))]

    def elem_parts(self, f, l, x, body):
        """Which parts of the iterated (key, value) element a local is computed from, through ANY computation inside the
        loop body (calls included): subset of {'key', 'value'}."""
        fl = self.flow(f)
        tuples = {x}
        # locals holding the (k, v) tuple itself: payload of the Option returned by next()
        changed = True
        while changed:
            changed = False
            for b in body:
                for s in f.blocks[b]["s"]:
                    if s["pl"]["p"] or fl.node(s["pl"]) in tuples:
                        continue
                    for o in rv_operands(s["rv"]):
                        p = op_place(o)
                        if p and fl.node(p) in tuples:
                            flds = [str(e["f"]) for e in p["p"] if isinstance(e, dict) and "f" in e]
                            dcs = [e["dc"] for e in p["p"] if isinstance(e, dict) and "dc" in e]
                            if (dcs and flds == ["0"]) or not flds:
                                tuples.add(fl.node(s["pl"]))
                                changed = True
        parts = set()
        seen = set()
        todo = [l]
        while todo:
            cur = todo.pop()
            if cur in seen:
                continue
            seen.add(cur)
            for b in body:
                for s in f.blocks[b]["s"]:
                    if fl.node(s["pl"]) != cur:
                        continue
                    for o in rv_operands(s["rv"]):
                        p = op_place(o)
                        if not p:
                            continue
                        n = fl.node(p)
                        flds = [str(e["f"]) for e in p["p"] if isinstance(e, dict) and "f" in e]
                        dcs = [e["dc"] for e in p["p"] if isinstance(e, dict) and "dc" in e]
                        if n in tuples:
                            eff = flds[1:] if (dcs and flds[:1] == ["0"]) else flds
                            if eff[:1] == ["0"]:
                                parts.add("key")
                            elif eff[:1] == ["1"]:
                                parts.add("value")
                            continue
                        todo.append(n)
                tt = f.blocks[b]["t"]
                if tt["k"] == "call" and fl.node(tt["dest"]) == cur:
                    for a in tt["args"]:
                        p = op_place(a)
                        if p:
                            n = fl.node(p)
                            flds = [str(e["f"]) for e in p["p"] if isinstance(e, dict) and "f" in e]
                            if n in tuples and flds:
                                parts.add("key" if flds[-1] == "0" or flds[:1] == ["0"] and len(flds) == 1 else "value" if "1" in flds[:2] else "key")
                            else:
                                todo.append(n)
        return parts

    def is_value_projection(self, f, l, x, body):
        """Mirror of is_key_projection: does l come from the `.1` (value) part of a (k, v) element?"""
        fl = self.flow(f)
        seen = set()
        cur = l
        steps = 0
        while cur is not None and cur not in seen and steps < 12:
            steps += 1
            seen.add(cur)
            nxt = None
            for b in body:
                for s in f.blocks[b]["s"]:
                    if fl.node(s["pl"]) == cur and not s["pl"]["p"]:
                        for o in rv_operands(s["rv"]):
                            p = op_place(o)
                            if p:
                                flds = [str(e["f"]) for e in p["p"] if isinstance(e, dict) and "f" in e]
                                if flds[-1:] == ["1"] and (fl.node(p) != x or len(flds) >= 2):
                                    return True
                                nxt = fl.node(p)
                tt = f.blocks[b]["t"]
                if tt["k"] == "call" and fl.node(tt["dest"]) == cur and tt["args"]:
                    if last_seg(callee_of(tt)) in ("deref", "borrow", "as_ref", "clone", "as_slice", "as_bytes", "to_vec",
                                                   "to_owned", "to_string"):
                        p = op_place(tt["args"][0])
                        if p:
                            nxt = fl.node(p)
            cur = nxt
        return False

    def exit_findings(self, f, next_bb, x, body, none_t, elem):
        fl = self.flow(f)
        out = []
        exits = set()
        for b in body:
            for s2 in f.succ(b):
                if s2 not in body and s2 != next_bb:
                    exits.add((b, s2))
        if not exits:
            return out
        rets = set(f.return_blocks())
        from paths import err_assign_blocks
        errb = set(err_assign_blocks(f))
        for b, s2 in sorted(exits):
            region = f.reachable(s2)
            # an exit that cannot reach a return (diverges / panics) is not an observable value
            if not (region & rets):
                continue
            # error exits
            src_is_err = (b in errb) or bool(self._err_between(f, b, s2, errb, body))
            if src_is_err:
                out.append(Finding("error-choice", "early exit with an error (`?`/Err) inside the loop", f.loc(b)))
                continue
            # does the carried value derive from the element?  look at what is assigned on the way out
            carried = set()
            for bb2 in ({b} | (region - body)):
                pass
            # values assigned inside the loop body to outer locals on the path to this exit
            assigned = []
            exit_region = region - body
            dom_region = [bb2 for bb2 in body if b in f.reachable(bb2, avoid=[next_bb])] + [b] + sorted(exit_region)
            outer = self.outer_locals(f, body)
            elem = self.elem_locals(f, x, set(body) | set(exit_region))
            elem_dep = False
            for bb2 in set(dom_region):
                for s in f.blocks[bb2]["s"]:
                    d = fl.node(s["pl"])
                    if d in outer:
                        if any(fl.node(op_place(o)) in elem for o in rv_operands(s["rv"]) if op_place(o)):
                            elem_dep = True
                tt = f.blocks[bb2]["t"]
                if tt["k"] == "call" and fl.node(tt["dest"]) in outer:
                    if any(fl.node(op_place(a)) in elem for a in tt["args"] if op_place(a)):
                        elem_dep = True
            if elem_dep:
                if self.unique_key_guard(f, b, x, body, elem, next_bb):
                    out.append(Finding("clean", "early exit on equality with the (unique) key", f.loc(b)))
                else:
                    out.append(Finding("sensitive", "early exit carrying an element-derived value (first match in container order)", f.loc(b)))
            else:
                out.append(Finding("clean", "early exit with an element-independent value", f.loc(b)))
        return out

    def _err_between(self, f, b, s2, errb, body):
        # the exit edge leads (without re-entering the loop) only to error returns?
        region = f.reachable(s2, avoid=list(body))
        rets = set(f.return_blocks())
        if not (region & rets):
            return False
        from paths import ok_assign_blocks
        okb = set(ok_assign_blocks(f))
        has_err = bool(region & errb)
        # all paths from s2 to return pass an error assignment and none an Ok assignment
        if has_err and not (region & okb):
            return True
        return False

    def unique_key_guard(self, f, exit_b, x, body, elem, next_bb):
        """Is the exit only reachable through the true edge of `key == invariant`?"""
        fl = self.flow(f)
        for b in body:
            tt = f.blocks[b]["t"]
            if tt["k"] != "call":
                continue
            name = last_seg(tt.get("callee") or callee_of(tt))
            if name not in ("eq", "ne") or len(tt["args"]) != 2:
                continue
            a0, a1 = [fl.node(op_place(a)) if op_place(a) else None for a in tt["args"]]
            in0, in1 = a0 in elem, a1 in elem
            if in0 == in1:
                continue
            el = a0 if in0 else a1
            if not self.is_key_projection(f, el, x, body):
                continue
            nb = tt.get("target")
            if nb is None or f.blocks[nb]["t"]["k"] != "switch":
                continue
            sw = f.blocks[nb]["t"]
            arms = dict((v, g) for v, g in sw["arms"])
            true_t = sw["otherwise"] if 0 in arms else arms.get(1)
            false_t = arms.get(0, sw["otherwise"])
            if name == "ne":
                true_t, false_t = false_t, true_t
            # exit_b reachable within the body only via true_t
            reach_wo = f.reachable(false_t, avoid=[next_bb]) & (body | {exit_b})
            if exit_b not in reach_wo and exit_b in (f.reachable(true_t, avoid=[next_bb]) | {true_t}):
                return True
        return False

    def is_key_projection(self, f, l, x, body):
        """Does local l (transitively, through refs/derefs) denote the map KEY of
        the element (projection .0 of the (k, v) pair) or the element of a set /
        keys() stream?"""
        fl = self.flow(f)
        xty = fl.ty(x)
        pair = "(&" in xty or "Option<(" in xty
        seen = set()
        cur = l
        saw0 = False
        steps = 0
        while cur is not None and cur not in seen and steps < 12:
            steps += 1
            seen.add(cur)
            if cur == x:
                return saw0 or not pair
            nxt = None
            for b in body:
                for s in f.blocks[b]["s"]:
                    if fl.node(s["pl"]) == cur and not s["pl"]["p"]:
                        for o in rv_operands(s["rv"]):
                            p = op_place(o)
                            if p:
                                flds = [str(e["f"]) for e in p["p"] if isinstance(e, dict) and "f" in e]
                                # (x as Some).0 is the payload; a following .0 is the key
                                if fl.node(p) == x:
                                    if flds.count("0") >= 2 or (flds[-1:] == ["0"] and len(flds) >= 2):
                                        saw0 = True
                                    if flds[-1:] == ["1"] and len(flds) >= 2:
                                        return False
                                else:
                                    if flds[-1:] == ["0"]:
                                        saw0 = True
                                    elif flds[-1:] == ["1"]:
                                        return False
                                nxt = fl.node(p)
                tt = f.blocks[b]["t"]
                if tt["k"] == "call" and fl.node(tt["dest"]) == cur and tt["args"]:
                    if last_seg(callee_of(tt)) in ("deref", "borrow", "as_ref", "clone", "as_slice", "as_bytes", "to_vec"):
                        p = op_place(tt["args"][0])
                        if p:
                            nxt = fl.node(p)
            cur = nxt
        return False

    # ------------------------------------------------------------------
    def closure_effects(self, f, arg, bb, what, depth):
        """A closure handed to an adaptor/reducer on a tainted stream runs once per
        element in container order: it must not mutate captured state."""
        fl = self.flow(f)
        clo = None
        c = op_const(arg)
        if c and "closure" in c:
            clo = (c["closure"], [])
        l = op_local(arg)
        if l is not None:
            for b2, i2, s2 in f.stmts():
                if fl.node(s2["pl"]) == l and s2["rv"]["k"] == "agg" and s2["rv"].get("agg") == "closure":
                    clo = (s2["rv"]["closure"], s2["rv"]["ops"])
        if clo is None:
            return []
        path, caps = clo
        g = self.prog.fn(path)
        if g is None:
            return []
        out = []
        mut_caps = []
        for k, o in enumerate(caps):
            ol = op_local(o)
            if ol is not None and f.local_ty(ol).startswith("&mut "):
                mut_caps.append((k, f.local_ty(ol)))
        for k, ty in mut_caps:
            inner = ty[len("&mut "):]
            if any(inner.startswith(bt) for bt in BENIGN_MUT_TYPES):
                continue
            if SETLIKE_TY.search(ty):
                out.append(Finding("clean", "closure of %s mutates a captured set/map" % what, f.loc(bb)))
                continue
            out.append(Finding("sensitive", "closure of %s captures %s mutably (effects happen in container order)" % (
                what, ty[:60]), f.loc(bb)))
        if self.reaches_gensym(path):
            out.append(Finding("sensitive", "closure of %s reaches gensym" % what, f.loc(bb)))
        return out

    def insert_only(self, targets, argidx, depth):
        """Summary: does the callee use its &mut parameter only to insert into
        sets/maps (directly or via one more level)?"""
        if depth > 2:
            return False, "summary depth exceeded"
        for tpath in targets:
            g = self.prog.fn(tpath)
            if g is None:
                return False, "no body for %s" % tpath
            key = (tpath, argidx)
            if key in self._summ:
                ok, why = self._summ[key]
                if not ok:
                    return ok, why
                continue
            self._summ[key] = (True, "recursive")   # optimistic for recursion
            ok, why = self._insert_only_body(g, argidx + 1, depth)
            self._summ[key] = (ok, why)
            if not ok:
                return ok, why
        return True, ""

    def _insert_only_body(self, g, param, depth):
        fl = self.flow(g)
        al = {param}
        changed = True
        while changed:
            changed = False
            for bb, i, s in g.stmts():
                d = fl.node(s["pl"])
                if d in al or s["pl"]["p"]:
                    continue
                if s["rv"]["k"] in ("ref", "use", "cast"):
                    for o in rv_operands(s["rv"]):
                        p = op_place(o)
                        if p and fl.node(p) in al:
                            al.add(d)
                            changed = True
        # stores through the parameter
        for bb, i, s in g.stmts():
            if fl.node(s["pl"]) in al and s["pl"]["p"]:
                flds = [e for e in s["pl"]["p"] if e != "*"]
                return False, "%s assigns a field of its &mut parameter" % g.path
        for bb, t in g.calls():
            tys = t.get("arg_tys", [])
            for i, a in enumerate(t["args"]):
                p = op_place(a)
                if not p or fl.node(p) not in al:
                    continue
                c = callee_of(t) or ""
                name = last_seg(t.get("callee") or c)
                ty = tys[i] if i < len(tys) else ""
                if not ty.startswith("&mut "):
                    continue
                if SETLIKE_TY.search(ty) and name in SET_MUTATORS:
                    continue
                if any(ty[5:].startswith(bt) for bt in BENIGN_MUT_TYPES):
                    continue
                if t.get("callee_local") or t.get("target_local"):
                    ok, why = self.insert_only(self.prog.call_targets(t), i, depth + 1)
                    if ok:
                        continue
                    return False, why
                if name in ("deref_mut", "as_mut", "borrow_mut"):
                    al.add(fl.node(t["dest"]))
                    continue
                return False, "%s passes its &mut parameter to %s" % (g.path, c)
        return True, ""


def stream_like(f, fl, root):
    return ()


def outer_mut_other(outer_mut, x, f, fl):
    return False


# ----------------------------------------------------------------------------
def key_fn(f):
    """Function part of a key: closure indices shift when closures are added or removed, so they are not part of it."""
    if os.environ.get("VERIF_C05_KEYS_BY_NAME"):
        return f.path
    return re.sub(r"\{closure#\d+\}", "{closure}", f.path)


def load_table():
    p = os.path.join(VERIF, "tables", "hash_order.json")
    if os.path.exists(p):
        return json.load(open(p))
    return {}


def check(prog, R, tier, compile_reach=None):
    A = Analyzer(prog)
    table = load_table()
    used_table = set()
    compile_reach = compile_reach or set()
    # ---------------- R05.a ----------------------------------------------------
    srcs = A.sources(HASHIT)
    R.floor("R05.a", "hash iteration sites", len(srcs), 45)
    seen_keys = defaultdict(int)
    summary = defaultdict(int)
    site_rows = []
    for f, bb, t in srcs:
        recv = A.describe_receiver(f, t)
        base = "R05.a|%s|%s.%s" % (key_fn(f), recv, last_seg(callee_of(t)))
        seen_keys[base] += 1
        key = base if seen_keys[base] == 1 else "%s#%d" % (base, seen_keys[base])
        fl = A.flow(f)
        findings = A.classify_stream(f, [fl.node(t["dest"])], 0, "hash-ordered stream")
        classes = sorted({x.cls for x in findings})
        sens = [x for x in findings if x.cls == "sensitive"]
        row = {"key": key, "site": f.loc(bb), "classes": classes,
               "findings": ["%s: %s @%s" % (x.cls, x.what, x.site) for x in findings][:12]}
        site_rows.append(row)
        if not sens:
            how = "auto: " + "; ".join(sorted({"%s (%s)" % (x.cls, x.what) for x in findings}))[:300]
            R.ob("R05.a", key, f.loc(bb), how, fn=f.path)
            summary["auto"] += 1
        elif compile_reach and f.root not in compile_reach and f.path not in compile_reach:
            R.ob("R05.a", key, f.loc(bb), "auto: order-sensitive (%s) but %s is not reachable from any compile entry "
                 "point in the call graph (CHA), so it cannot influence emitted CLVM or symbols" % (
                     sens[0].what[:80], f.root), fn=f.path)
            summary["auto:not-reachable"] += 1
            if key in table:
                used_table.add(key)
        elif key in table:
            ent = table[key]
            used_table.add(key)
            R.ob("R05.a", key, f.loc(bb), "table: %s — %s" % (ent["class"], ent["reason"]), fn=f.path,
                 detail={"order_sensitive_uses": [x.what for x in sens][:6]})
            summary["table:" + ent["class"]] += 1
        else:
            R.viol("R05.a", key, f.loc(bb),
                   "iteration of an unordered std hash container in %s (%s) is consumed order-sensitively: %s — "
                   "the result would depend on the process's hash seed. Make the consumer order-insensitive, sort, "
                   "use an ordered container, or review it into tables/hash_order.json" % (
                       f.path, recv, "; ".join("%s @%s" % (x.what, x.site) for x in sens[:4])), fn=f.path)
            summary["unlisted"] += 1
    # hash containers handed whole to a generic serializer / formatter iterate inside the callee
    nser = 0
    for f in sorted(prog.fns.values(), key=lambda f: f.path):
        for bb, t in f.calls():
            c = callee_of(t) or ""
            d = t.get("callee") or ""
            g = " ".join(t.get("gargs", []))
            if not ("std::collections::HashMap<" in g or "std::collections::HashSet<" in g):
                continue
            if not any(x in c or x in d for x in ("serde_json::to_", "Serialize>::serialize", "Serialize::serialize",
                                                  "fmt::Debug>::fmt", "fmt::Debug::fmt", "serde_json::ser")):
                continue
            nser += 1
            key = "R05.a|%s|serialize:%s" % (key_fn(f), last_seg(c))
            if key in table:
                used_table.add(key)
                R.ob("R05.a", key, f.loc(bb), "table: %s — %s" % (table[key]["class"], table[key]["reason"]), fn=f.path)
            elif compile_reach and f.root not in compile_reach:
                R.ob("R05.a", key, f.loc(bb), "auto: not reachable from a compile entry point", fn=f.path)
            else:
                R.viol("R05.a", key, f.loc(bb), "%s hands a std hash container to %s, which walks it in hash order: the "
                       "rendered text depends on the process's hash seed" % (f.path, c), fn=f.path)
    R.counts["hash containers given to serializers/formatters"] = nser
    for k in table:
        if k.startswith("R05.a|") and k not in used_table:
            R.stale_table.append("hash_order.json: " + k)
    R.counts["R05.a classification"] = dict(summary)
    R.extra["hash_sites"] = site_rows

    # ---------------- R05.b digest order -----------------------------------------
    check_digest_order(prog, A, R, table, used_table)


def digest_derived(A, f, node):
    """Does the value in `node` derive from a tree-hash computation (directly or
    via a closure passed to the producing call whose body hashes)?"""
    fl = A.flow(f)
    for l in fl.back([node]):
        for bb, t in fl.call_defs.get(l, []):
            c = callee_of(t) or ""
            if c in DIGEST_FNS or (t.get("callee") or "") in DIGEST_FNS:
                return True, "%s at %s" % (c, f.loc(bb))
        # closures flowing into l
        for bb, i, s in fl.agg_defs.get(l, []):
            if s["rv"].get("agg") == "closure":
                g = A.prog.fn(s["rv"]["closure"])
                if g is not None and closure_hashes(A, g, 0):
                    return True, "closure %s hashes" % g.path
        for c in fl.consts.get(l, []):
            if "closure" in c:
                g = A.prog.fn(c["closure"])
                if g is not None and g.kind == "Closure" and closure_hashes(A, g, 0):
                    return True, "closure %s hashes" % g.path
    return False, ""


def closure_hashes(A, g, depth):
    """Closure whose return value derives from a digest call."""
    fl = A.flow(g)
    for l in fl.back([0]):
        for bb, t in fl.call_defs.get(l, []):
            c = callee_of(t) or ""
            if c in DIGEST_FNS:
                return True
    return False


def check_digest_order(prog, A, R, table, used_table):
    n_src = 0
    digest_fields = set()     # (adt, field) that carry a digest
    for f in prog.fns.values():
        fl = None
        for bb, i, s in f.stmts():
            rv = s["rv"]
            if rv["k"] == "agg" and rv.get("agg") == "adt" and rv.get("fields"):
                for fld, o in zip(rv["fields"], rv["ops"]):
                    l = op_local(o)
                    if l is None:
                        continue
                    if f.local_ty(l) not in ("std::vec::Vec<u8>",):
                        continue
                    if fl is None:
                        fl = A.flow(f)
                    # cheap pre-filter: field named like a hash or value derived from digest
                    ok, why = digest_derived(A, f, fl.node(op_place(o)))
                    if ok:
                        digest_fields.add((rv["adt"], fld))
    R.counts["digest-carrying fields"] = sorted("%s.%s" % x for x in digest_fields)

    for f, bb, t in A.sources(BTIT):
        fl = A.flow(f)
        rty = t["arg_tys"][0] if t.get("arg_tys") else ""
        # the container iterated
        root = A.root_local(f, fl.node(op_place(t["args"][0]))) if t["args"] and op_place(t["args"][0]) else None
        if root is None:
            continue
        # keys inserted into this container in this function
        keyed_by_digest = None
        for b2, t2 in f.calls():
            name = last_seg(t2.get("callee") or callee_of(t2))
            c2 = callee_of(t2) or ""
            if name in ("insert", "entry", "get_mut", "get") and c2.startswith("std::collections::BTree") and t2["args"]:
                p0 = op_place(t2["args"][0])
                if p0 and A.root_local(f, fl.node(p0)) == root and len(t2["args"]) > 1 and name in ("insert", "entry"):
                    kp = op_place(t2["args"][1])
                    if kp:
                        ok, why = digest_derived(A, f, fl.node(kp))
                        if ok:
                            keyed_by_digest = why
        # Byte-string keys are names or digests; both can contain generated-name material
        # (`cse_$_N`, `letbinding_$_N`, hashes of renamed forms), whose ORDER depends on the
        # fresh-name counter (e.g. `x_$_1000` < `x_$_999`).  Key type decides, not provenance.
        bytes_keyed = bool(re.match(r"^(&mut |&)?std::collections::BTree(Map|Set)<std::vec::Vec<u8>[,>]", rty))
        if not keyed_by_digest and not bytes_keyed:
            continue
        if not keyed_by_digest:
            keyed_by_digest = "byte-string keys (names/digests may contain generated names)"
        n_src += 1
        recv = A.describe_receiver(f, t)
        key = "R05.b|%s|%s.%s" % (key_fn(f), recv, last_seg(callee_of(t)))
        A.last_sorts = []
        findings = A.classify_stream(f, [fl.node(t["dest"])], 0, "digest-ordered stream")
        sens = [x for x in findings if x.cls == "sensitive"]
        # a sanitising sort must not compare digest-carrying fields
        bad_sort = []
        for (sf, sbb, st) in getattr(A, "last_sorts", []):
            for a in st["args"][1:]:
                c = op_const(a)
                g = None
                if c and "closure" in c:
                    g = prog.fn(c["closure"])
                l = op_local(a)
                if l is not None:
                    for b3, i3, s3 in sf.stmts():
                        if s3["pl"]["l"] == l and s3["rv"]["k"] == "agg" and s3["rv"].get("agg") == "closure":
                            g = prog.fn(s3["rv"]["closure"])
                if g is not None:
                    for b3, i3, s3 in g.stmts():
                        for o in rv_operands(s3["rv"]):
                            p = op_place(o)
                            if p:
                                for e in p["p"]:
                                    if isinstance(e, dict) and "f" in e and (e.get("of", "").split("::")[-1], e["f"]) in {
                                            (a_.split("::")[-1], f_) for a_, f_ in digest_fields}:
                                        bad_sort.append("%s compares digest field %s" % (g.path, e["f"]))
            if len(st["args"]) == 1 and any(x.cls == "sanitised" for x in findings):
                # natural-order sort of elements that may themselves contain the digest
                pass
        if bad_sort:
            sens.append(Finding("sensitive", "re-sort uses a digest as key: " + "; ".join(sorted(set(bad_sort))), f.loc(bb)))
        if not sens:
            R.ob("R05.b", key, f.loc(bb), "auto: " + "; ".join(sorted({"%s (%s)" % (x.cls, x.what) for x in findings}))[:300],
                 fn=f.path, detail={"keyed_by": keyed_by_digest})
        elif key in table:
            used_table.add(key)
            R.ob("R05.b", key, f.loc(bb), "table: %s — %s" % (table[key]["class"], table[key]["reason"]), fn=f.path)
        else:
            R.viol("R05.b", key, f.loc(bb),
                   "%s iterates a B-tree ordered by byte strings that may embed generated names [%s] and consumes it "
                   "order-sensitively: %s. Generated names (`x_$_N`) and digests of forms containing them sort differently "
                   "for different values of the fresh-name counter, so this order depends on what was compiled earlier in "
                   "the process" % (f.path, keyed_by_digest,
                                                        "; ".join("%s @%s" % (x.what, x.site) for x in sens[:4])), fn=f.path)
    R.counts["digest-ordered iteration sources"] = n_src
