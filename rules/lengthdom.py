"""Length domain: forward abstract interpretation over one function's MIR with
facts  min_len(place) >= n  for Vec / slice / array places, used to discharge
constant-index accesses (C14).

Places are canonicalised to (root local, field-name path); references,
Deref/Borrow/AsRef/as_slice calls and moves of single-definition temporaries
are looked through.  Facts are created by tests on `len()` / `is_empty()` /
slice-pattern length checks (edge facts), by array types and literal
constructors, and by `push`; they are killed when the place (or an enclosing
place) is assigned or handed out mutably to anything not known to preserve or
grow the length.  Join is the pointwise minimum."""
import re
from collections import defaultdict, deque

from mir import callee_of, op_const, op_int, op_local, op_place, rv_operands

LOOK_THROUGH = ("deref", "deref_mut", "borrow", "borrow_mut", "as_ref", "as_mut", "as_slice", "as_mut_slice",
                "as_bytes", "as_str", "clone", "to_vec", "to_owned", "into_vec", "into_boxed_slice",
                "box_assume_init_into_vec_unsafe", "into", "from", "unsize")
SAME_LEN_COPY = ("clone", "to_vec", "to_owned", "into_vec", "into_boxed_slice", "box_assume_init_into_vec_unsafe")
LEN_FNS = ("len",)
GROW_OR_KEEP = ("push", "push_back", "push_front", "extend", "extend_from_slice", "append", "insert", "sort", "sort_by",
                "sort_by_key", "sort_unstable", "sort_unstable_by", "sort_unstable_by_key", "reverse", "iter_mut",
                "index_mut", "get_mut", "first_mut", "last_mut", "as_mut_slice", "deref_mut", "swap", "fill",
                "as_mut", "borrow_mut", "reserve", "iter", "len", "as_mut_ptr", "copy_from_slice", "clone_from_slice",
                "rotate_left", "rotate_right", "make_ascii_lowercase", "make_ascii_uppercase", "next", "write_all",
                "push_str")
ARRAY_TY = re.compile(r"^\[(.+); (\d+)\]$")


def strip_ref(ty):
    while ty.startswith("&"):
        ty = ty[1:]
        if ty.startswith("mut "):
            ty = ty[4:]
        ty = ty.lstrip()
        if ty.startswith("'"):
            ty = ty.split(" ", 1)[1] if " " in ty else ty
    return ty


class Summaries:
    """Per-program cache of tiny crate-local helper summaries:
       accessor   f(x, ..) returns a reference to x.<path>          -> ('place', argidx, path)
       length     f(x, ..) returns len(x.<path>)                    -> ('len', argidx, path)
       predicate  f(.., x, ..) == true implies len(x.<path>) >= n   -> ('pred', argidx, path, n)"""

    def __init__(self, prog):
        self.prog = prog
        self.cache = {}
        self.busy = set()

    def get(self, path):
        if path in self.cache:
            return self.cache[path]
        if path in self.busy:
            return None
        g = self.prog.fn(path) if self.prog else None
        res = None
        if g is not None and g.argc >= 1 and len(g.blocks) <= 40 and g.kind != "Closure":
            self.busy.add(path)
            try:
                res = self._summarise(g)
            finally:
                self.busy.discard(path)
        self.cache[path] = res
        return res

    def _summarise(self, g):
        ld = LengthDomain(g, self.prog, self)
        rty = g.local_ty(0)
        if rty == "bool":
            best = None
            sites = []
            for bb, b in enumerate(g.blocks):
                if b.get("cleanup") or bb not in ld.in_state:
                    continue
                for s in b["s"]:
                    if s["pl"]["l"] == 0 and not s["pl"]["p"]:
                        c = op_const(s["rv"].get("op")) if s["rv"]["k"] == "use" else None
                        if c is not None and c.get("bool") is False:
                            continue
                        sites.append(bb)
                t = b["t"]
                if t["k"] == "call" and t["dest"]["l"] == 0:
                    sites.append(bb)
            if not sites:
                return None
            for i in range(1, g.argc + 1):
                ty = g.local_ty(i)
                if not ("Vec<" in ty or "[" in ty or "Bytes" in ty):
                    continue
                # candidate keys rooted at parameter i seen in any state
                keys = {k for bb in sites for k in ld.in_state.get(bb, {}) if k[0] == i}
                for k in keys:
                    n = min(ld.min_len_at_term(bb, k) for bb in sites)
                    if n > 0 and (best is None or n > best[3]):
                        best = ("pred", i - 1, k[1], n)
            return best
        k = ld.len_source(0)
        if k is not None and 1 <= k[0] <= g.argc:
            return ("len", k[0] - 1, k[1])
        # indexing accessor: f(x, i) indexes x.<path>[i] unconditionally (entry block) with i a parameter
        if g.argc >= 2 and len(g.blocks) <= 6:
            b0 = g.blocks[0]
            t0 = b0["t"]
            if t0["k"] == "call" and (t0.get("callee") or "").endswith("ops::Index::index") and len(t0["args"]) == 2:
                ck = ld.key_of_operand(t0["args"][0])
                il = op_local(t0["args"][1])
                src = il
                for s in b0["s"]:
                    if s["pl"]["l"] == il and s["rv"]["k"] == "use" and op_local(s["rv"]["op"]) is not None:
                        src = op_local(s["rv"]["op"])
                if ck is not None and 1 <= ck[0] <= g.argc and src is not None and 1 <= src <= g.argc and src != ck[0]:
                    return ("index", ck[0] - 1, ck[1], src - 1)
        # f(x) = x.<path>.clone() / to_vec(): result has the same length
        ds0 = ld.defs.get(0, [])
        if len(ds0) == 1 and ds0[0][0] == "c":
            t0 = ds0[0][2]
            nm = (callee_of(t0) or "").rsplit("::", 1)[-1]
            if nm in SAME_LEN_COPY and t0["args"] and (callee_of(t0) or "").startswith(("std::", "<std::", "alloc::", "<alloc::")):
                k = ld.key_of_operand(t0["args"][0])
                if k is not None and 1 <= k[0] <= g.argc:
                    return ("copy", k[0] - 1, k[1])
        if rty.startswith("&"):
            k = ld.key_of_local(0)
            if k is not None and k != (0, ()) and 1 <= k[0] <= g.argc:
                return ("place", k[0] - 1, k[1])
        return None


class LengthDomain:
    def __init__(self, fn, prog=None, summaries=None, entry=None):
        self.fn = fn
        self.prog = prog
        self.summ = summaries
        self.entry = dict(entry or {})      # facts holding on entry (e.g. established by an upstream `.filter(pred)`)
        self.defs = defaultdict(list)
        for bb, b in enumerate(fn.blocks):
            if b.get("cleanup"):
                continue
            for i, s in enumerate(b["s"]):
                self.defs[s["pl"]["l"]].append(("s", bb, i, s))
            t = b["t"]
            if t["k"] == "call":
                self.defs[t["dest"]["l"]].append(("c", bb, t))
        self._key_cache = {}
        self.in_state = {}
        self.edge_facts = defaultdict(dict)   # (src, dst) -> {key: n}
        self.edge_neq = defaultdict(dict)     # (src, dst) -> {key: c}  meaning len != c on that edge
        self._compute_edge_facts()
        self._solve()

    # -- canonical keys --------------------------------------------------------
    def key_of_place(self, pl, depth=0):
        """Canonical key of a place: (root local, tuple(field names))."""
        fields = []
        for e in pl["p"]:
            if e == "*":
                continue
            if isinstance(e, dict):
                if "f" in e:
                    fields.append(str(e["f"]))
                elif "dc" in e:
                    fields.append("@" + e["dc"])
                else:
                    return None    # indexing into something: not tracked
        base = self.key_of_local(pl["l"], depth + 1)
        if base is None:
            return None
        return (base[0], base[1] + tuple(fields))

    def key_of_local(self, l, depth=0):
        if l in self._key_cache:
            return self._key_cache[l]
        res = (l, ())
        ty = self.fn.local_ty(l)
        named_shared_ref = bool(self.fn.local_name(l)) and ty.startswith("&") and not ty.startswith("&mut")
        if depth < 12 and not (1 <= l <= self.fn.argc) and (not self.fn.local_name(l) or named_shared_ref):
            ds = self.defs.get(l, [])
            whole = [d for d in ds if (d[0] == "s" and not d[3]["pl"]["p"]) or (d[0] == "c" and not d[2]["dest"]["p"])]
            if len(ds) == 1 and len(whole) == 1:
                d = whole[0]
                if d[0] == "s":
                    rv = d[3]["rv"]
                    if rv["k"] in ("ref", "use", "cast", "rawptr"):
                        ops = rv_operands(rv)
                        p = op_place(ops[0]) if ops else None
                        if p is not None:
                            k = self.key_of_place(p, depth + 1)
                            if k is not None:
                                res = k
                else:
                    t = d[2]
                    name = (callee_of(t) or "").rsplit("::", 1)[-1]
                    if name in LOOK_THROUGH and name not in SAME_LEN_COPY and t["args"]:
                        p = op_place(t["args"][0])
                        if p is not None:
                            k = self.key_of_place(p, depth + 1)
                            if k is not None:
                                res = k
                    elif self.summ is not None and (t.get("target_local") or t.get("callee_local")):
                        sm = self.summ.get(callee_of(t))
                        if sm and sm[0] == "place" and sm[1] < len(t["args"]):
                            p = op_place(t["args"][sm[1]])
                            if p is not None:
                                k = self.key_of_place(p, depth + 1)
                                if k is not None:
                                    res = (k[0], k[1] + tuple(sm[2]))
        self._key_cache[l] = res
        return res

    def key_of_operand(self, op):
        p = op_place(op)
        if p is None:
            return None
        return self.key_of_place(p)

    def static_len(self, key):
        """Length known from the type ([T; N]) of the keyed place's root when the path is empty."""
        if key is None:
            return 0
        l, path = key
        if tuple(path) == ("@Some", "0"):
            return self._chunk_len(l)       # payload of ChunksExact::next()
        if path:
            return 0
        ty = strip_ref(self.fn.local_ty(l))
        m = ARRAY_TY.match(ty)
        if m:
            return int(m.group(2))
        n = self._chunk_len(l)
        if n:
            return n
        return 0

    def _chunk_len(self, l, depth=0):
        """Elements yielded by `x.chunks_exact(n)` / `array_chunks` have exactly n elements."""
        if depth > 4:
            return 0
        for d in self.defs.get(l, []):
            if d[0] == "s":
                rv = d[3]["rv"]
                if rv["k"] in ("use", "ref"):
                    p = op_place(rv["op"]) if rv["k"] == "use" else rv["pl"]
                    if p is not None:
                        n = self._chunk_len(p["l"], depth + 1)
                        if n:
                            return n
            else:
                t = d[2]
                c = callee_of(t) or ""
                if "ChunksExact" in c and c.endswith("::next"):
                    # the iterator local -> its chunks_exact(.., n) constructor
                    it = op_local(t["args"][0]) if t["args"] else None
                    seen = set()
                    todo = [it]
                    while todo:
                        x = todo.pop()
                        if x is None or x in seen:
                            continue
                        seen.add(x)
                        for dd in self.defs.get(x, []):
                            if dd[0] == "c":
                                tt = dd[2]
                                cc = callee_of(tt) or ""
                                if cc.endswith("::chunks_exact") and len(tt["args"]) > 1 and op_int(tt["args"][1]):
                                    return op_int(tt["args"][1])
                                for a in tt["args"][:1]:
                                    todo.append(op_local(a))
                            else:
                                rv2 = dd[3]["rv"]
                                for o in rv_operands(rv2):
                                    todo.append(op_local(o))
        return 0

    # -- symbolic lengths and tests -------------------------------------------------
    def len_source(self, l, depth=0):
        """If local l holds `len(K)` return K."""
        if depth > 6:
            return None
        ds = self.defs.get(l, [])
        if len(ds) != 1:
            return None
        d = ds[0]
        if d[0] == "c":
            t = d[2]
            name = (callee_of(t) or "").rsplit("::", 1)[-1]
            c = callee_of(t) or ""
            if name == "len" and t["args"] and ("Vec" in c or "slice" in c or "[T]" in c or "str" in c or "String" in c
                                                or "VecDeque" in c):
                return self.key_of_operand(t["args"][0])
            if self.summ is not None and (t.get("target_local") or t.get("callee_local")):
                sm = self.summ.get(c)
                if sm and sm[0] == "len" and sm[1] < len(t["args"]):
                    k = self.key_of_operand(t["args"][sm[1]])
                    if k is not None:
                        return (k[0], k[1] + tuple(sm[2]))
            return None
        rv = d[3]["rv"]
        if rv["k"] == "un" and rv["op"] in ("PtrMetadata", "Len"):
            return self.key_of_operand(rv["a"])
        if rv["k"] == "use" or (rv["k"] == "cast" and "IntToInt" in rv.get("kind", "")):
            ol = op_local(rv["op"])
            p = op_place(rv["op"])
            if ol is not None and not p["p"]:
                return self.len_source(ol, depth + 1)
        if rv["k"] == "other" and "Len(" in rv.get("dbg", ""):
            return None
        return None

    def bool_meaning(self, l, depth=0):
        """If bool local l means a comparison of len(K) with a constant, return
        (K, op, const) normalised so that len is on the left; `is_empty(K)` is
        (K, 'Eq', 0).  `Not` is folded."""
        if depth > 6:
            return None
        ds = self.defs.get(l, [])
        if len(ds) != 1:
            return None
        d = ds[0]
        if d[0] == "c":
            t = d[2]
            c = callee_of(t) or ""
            name = c.rsplit("::", 1)[-1]
            if name == "is_empty" and t["args"]:
                k = self.key_of_operand(t["args"][0])
                return (k, "Eq", 0) if k else None
            if self.summ is not None and (t.get("target_local") or t.get("callee_local")):
                sm = self.summ.get(c)
                if sm and sm[0] == "pred" and sm[1] < len(t["args"]):
                    k = self.key_of_operand(t["args"][sm[1]])
                    if k is not None:
                        return ((k[0], k[1] + tuple(sm[2])), "Ge", sm[3])
            return None
        rv = d[3]["rv"]
        if rv["k"] == "bin" and rv["op"] in ("Eq", "Ne") and 0 in (op_int(rv["a"]), op_int(rv["b"])):
            # parity / divisibility test: `len(K) % c == 0` false  =>  len(K) != 0   (sound for lower bounds only)
            other = rv["b"] if op_int(rv["a"]) == 0 else rv["a"]
            ol = op_local(other)
            for dd in (self.defs.get(ol, []) if ol is not None else []):
                if dd[0] == "s" and dd[3]["rv"]["k"] == "bin" and dd[3]["rv"]["op"] == "Rem":
                    r = dd[3]["rv"]
                    k = self.len_source(op_local(r["a"])) if op_local(r["a"]) is not None else None
                    if k is not None and (op_int(r["b"]) or 0) >= 2:
                        return (k, rv["op"], 0)
        if rv["k"] == "bin" and rv["op"] in ("Lt", "Le", "Gt", "Ge", "Eq", "Ne"):
            a, b = rv["a"], rv["b"]
            ka = self.len_source(op_local(a)) if op_local(a) is not None else None
            kb = self.len_source(op_local(b)) if op_local(b) is not None else None
            ca, cb = op_int(a), op_int(b)
            if ka is not None and cb is not None:
                return (ka, rv["op"], cb)
            if kb is not None and ca is not None:
                flip = {"Lt": "Gt", "Le": "Ge", "Gt": "Lt", "Ge": "Le", "Eq": "Eq", "Ne": "Ne"}[rv["op"]]
                return (kb, flip, ca)
            return None
        if rv["k"] == "un" and rv["op"] == "Not":
            m = self.bool_meaning(op_local(rv["a"]), depth + 1) if op_local(rv["a"]) is not None else None
            if m:
                neg = {"Lt": "Ge", "Le": "Gt", "Gt": "Le", "Ge": "Lt", "Eq": "Ne", "Ne": "Eq"}[m[1]]
                return (m[0], neg, m[2])
            return None
        if rv["k"] == "use":
            ol = op_local(rv["op"])
            if ol is not None:
                return self.bool_meaning(ol, depth + 1)
        return None

    @staticmethod
    def implied_min(op, c, truth):
        """Lower bound on len implied by `len <op> c` being `truth`."""
        if not truth:
            op = {"Lt": "Ge", "Le": "Gt", "Gt": "Le", "Ge": "Lt", "Eq": "Ne", "Ne": "Eq"}[op]
        if op == "Ge":
            return c
        if op == "Gt":
            return c + 1
        if op == "Eq":
            return c
        if op == "Ne" and c == 0:
            return 1
        return 0

    def _compute_edge_facts(self):
        fn = self.fn
        for bb, b in enumerate(fn.blocks):
            if b.get("cleanup"):
                continue
            t = b["t"]
            if t["k"] != "switch":
                continue
            dl = op_local(t["discr"])
            if dl is None:
                continue
            arms = [(v, tgt) for v, tgt in t["arms"]]
            if t["discr_ty"] == "bool":
                m = self.bool_meaning(dl)
                if not m or m[0] is None:
                    continue
                key, op, c = m
                for v, tgt in arms:
                    n = self.implied_min(op, c, bool(v))
                    if n > 0:
                        self._add_edge(bb, tgt, key, n)
                    # `len != c` on this edge: a lower bound of exactly c becomes c + 1
                    if (op == "Ne" and bool(v)) or (op == "Eq" and not bool(v)):
                        self.edge_neq[(bb, tgt)][key] = c
                # otherwise edge: the remaining truth value
                vals = {v for v, _ in arms}
                if len(vals) == 1:
                    other = not bool(next(iter(vals)))
                    n = self.implied_min(op, c, other)
                    if n > 0:
                        self._add_edge(bb, t["otherwise"], key, n)
                    if (op == "Ne" and other) or (op == "Eq" and not other):
                        self.edge_neq[(bb, t["otherwise"])][key] = c
            else:
                key = self.len_source(dl)
                if key is None:
                    continue
                for v, tgt in arms:
                    if v > 0:
                        self._add_edge(bb, tgt, key, v)
                vals = sorted(v for v, _ in arms)
                if vals and vals == list(range(0, len(vals))):
                    self._add_edge(bb, t["otherwise"], key, len(vals))

    def _add_edge(self, src, dst, key, n):
        # two edges to the same block with different facts: keep the weaker
        cur = self.edge_facts[(src, dst)].get(key)
        self.edge_facts[(src, dst)][key] = n if cur is None else min(cur, n)

    # -- transfer -------------------------------------------------------------------
    def _kill(self, state, key):
        if key is None:
            return
        l, path = key
        for k in list(state):
            if k[0] == l and (k[1][:len(path)] == path or path[:len(k[1])] == k[1]):
                del state[k]

    def transfer_block(self, bb, state):
        """Apply the block's statements and terminator to a copy of state;
        returns the out-state (before edge facts)."""
        fn = self.fn
        st = dict(state)
        b = fn.blocks[bb]
        for s in b["s"]:
            pl = s["pl"]
            rv = s["rv"]
            if rv["k"] in ("ref", "discr") or (rv["k"] == "un" and rv["op"] in ("PtrMetadata", "Len")):
                continue
            dk = self.key_of_place(pl) if not any(isinstance(e, dict) and ("idx" in e or "cidx" in e or "sub_from" in e)
                                                   for e in pl["p"]) else None
            if dk is None:
                continue
            # whole assignment of a tracked place
            if dk == (pl["l"], tuple(str(e["f"]) if "f" in e else "@" + e["dc"] for e in pl["p"] if isinstance(e, dict))):
                self._kill(st, dk)
                n = 0
                if rv["k"] == "agg" and rv.get("agg") == "array":
                    n = len(rv["ops"])
                elif rv["k"] == "use":
                    sk = self.key_of_operand(rv["op"])
                    if sk is not None:
                        n = max(st.get(sk, 0), self.static_len(sk))
                if n > 0:
                    st[dk] = n
        t = b["t"]
        if t["k"] == "call":
            c = callee_of(t) or ""
            name = c.rsplit("::", 1)[-1]
            tys = t.get("arg_tys", [])
            # destination
            dkey = self.key_of_place(t["dest"]) if not t["dest"]["p"] else None
            if dkey is not None and dkey[0] == t["dest"]["l"] and not dkey[1]:
                self._kill(st, dkey)
                n = 0
                if name in SAME_LEN_COPY and t["args"]:
                    sk = self.key_of_operand(t["args"][0])
                    if sk is not None:
                        n = max(st.get(sk, 0), self.static_len(sk))
                    if n == 0 and name in ("into_vec", "box_assume_init_into_vec_unsafe") and tys and tys[0].startswith("std::boxed::Box<"):
                        # vec![a, b, c]: the boxed array's length is in its type
                        mm = re.search(r"\[[^\[\];]+; (\d+)\]", tys[0])
                        if mm:
                            n = int(mm.group(1))
                elif self.summ is not None and (t.get("target_local") or t.get("callee_local")):
                    sm = self.summ.get(c)
                    if sm and sm[0] == "copy" and sm[1] < len(t["args"]):
                        sk = self.key_of_operand(t["args"][sm[1]])
                        if sk is not None:
                            sk = (sk[0], sk[1] + tuple(sm[2]))
                            n = max(st.get(sk, 0), self.static_len(sk))
                if n > 0:
                    st[dkey] = n
            # mutable arguments
            for i, a in enumerate(t["args"]):
                if i < len(tys) and tys[i].startswith("&mut "):
                    k = self.key_of_operand(a)
                    if k is None:
                        continue
                    std = c.startswith("std::") or c.startswith("<std::") or c.startswith("core::") or c.startswith("alloc::") \
                        or c.startswith("<alloc::") or c.startswith("<core::")
                    if std and i == 0 and name in GROW_OR_KEEP:
                        if name in ("push", "push_back", "push_front", "insert"):
                            st[k] = st.get(k, 0) + 1
                        continue
                    if std and i == 0 and name in ("pop", "remove", "swap_remove", "pop_front", "pop_back"):
                        cur = st.get(k, 0)
                        self._kill(st, k)
                        if cur > 1:
                            st[k] = cur - 1
                        continue
                    self._kill(st, k)
        return st

    def _solve(self):
        fn = self.fn
        n = len(fn.blocks)
        self.in_state = {0: dict(self.entry)}
        work = deque([0])
        iters = 0
        while work and iters < 20000:
            iters += 1
            bb = work.popleft()
            out = self.transfer_block(bb, self.in_state[bb])
            for s in fn.succ(bb):
                st = dict(out)
                for k, v in self.edge_facts.get((bb, s), {}).items():
                    st[k] = max(st.get(k, 0), v)
                for k, c in self.edge_neq.get((bb, s), {}).items():
                    if st.get(k, 0) == c:
                        st[k] = c + 1
                if s not in self.in_state:
                    self.in_state[s] = st
                    work.append(s)
                else:
                    cur = self.in_state[s]
                    new = {}
                    for k in cur:
                        if k in st:
                            m = min(cur[k], st[k])
                            if m > 0:
                                new[k] = m
                    if new != cur:
                        self.in_state[s] = new
                        work.append(s)

    # -- queries ----------------------------------------------------------------------
    def min_len_at_term(self, bb, key):
        """min_len(key) just before the terminator of block bb."""
        if bb not in self.in_state or key is None:
            return self.static_len(key)
        st = dict(self.in_state[bb])
        # apply the statements only
        fn = self.fn
        b = fn.blocks[bb]
        fake = {"s": b["s"], "t": {"k": "goto", "target": 0}}
        saved = fn.blocks[bb]
        fn.blocks[bb] = fake
        try:
            st = self.transfer_block(bb, st)
        finally:
            fn.blocks[bb] = saved
        return max(st.get(key, 0), self.static_len(key))


# ----------------------------------------------------------------------------------------------------------------
# iterator idiom: `.filter(|x| len(x.P) >= c).map(|x| .. x.P[k] ..)` — the consumer closure only ever sees elements for
# which the predicate closure returned true.
CONSUMERS = ("Iterator::map", "Iterator::for_each", "Iterator::filter_map", "Iterator::flat_map", "Iterator::any",
             "Iterator::all", "Iterator::find", "Iterator::fold", "Iterator::position", "Iterator::find_map", "Iterator::filter")


def filter_entry_facts(prog, closure_fn, summaries=None):
    """Facts on the element parameter of `closure_fn` established by a directly preceding `.filter(pred)` in the function
    that creates it.  Returns {key: min_len} in closure_fn's own key space (element parameter = local 2)."""
    creator = prog.fn(closure_fn.parent) if closure_fn.parent else None
    if creator is None or closure_fn.kind != "Closure":
        return {}
    out = {}

    def closure_arg(t):
        for a in t["args"]:
            l = op_local(a)
            if l is None:
                c = (a.get("c") or {}) if a.get("k") == "const" else {}
                if c.get("closure"):
                    yield c["closure"]
                continue
            for _, _, s in creator.stmts():
                if s["pl"]["l"] == l and not s["pl"]["p"] and s["rv"]["k"] == "agg" and s["rv"].get("agg") == "closure":
                    yield s["rv"]["closure"]
    for bb, t in creator.calls():
        d = t.get("callee") or ""
        if not any(d.endswith(x) for x in CONSUMERS):
            continue
        if closure_fn.path not in set(closure_arg(t)):
            continue
        recv = op_local(t["args"][0]) if t["args"] else None
        if recv is None:
            continue
        # the receiver must be the result of Iterator::filter (through moves only)
        seen = set()
        cur = recv
        filt = None
        for _ in range(6):
            if cur in seen:
                break
            seen.add(cur)
            defs_ = [(b2, t2) for b2, t2 in creator.calls() if t2["dest"]["l"] == cur and not t2["dest"]["p"]]
            if defs_:
                t2 = defs_[0][1]
                if (t2.get("callee") or "").endswith("Iterator::filter"):
                    filt = t2
                break
            nxt = None
            for _, _, s in creator.stmts():
                if s["pl"]["l"] == cur and not s["pl"]["p"] and s["rv"]["k"] == "use" and op_local(s["rv"]["op"]) is not None \
                        and not op_place(s["rv"]["op"])["p"]:
                    nxt = op_local(s["rv"]["op"])
            if nxt is None:
                break
            cur = nxt
        if filt is None:
            continue
        for pa in closure_arg(filt):
            A = prog.fn(pa)
            if A is None:
                continue
            ld = LengthDomain(A, prog, summaries)
            m = ld.bool_meaning(0)
            if not m or m[0] is None:
                continue
            (root, path), op, c = m
            if root != 2:
                continue
            n = LengthDomain.implied_min(op, c, True)
            if n and n > 0:
                out[(2, tuple(path))] = max(out.get((2, tuple(path)), 0), n)
    return out
