"""Path / polarity helpers on one function's CFG: the lowering of `?`,
Result/Option matches, "every path from A to B passes an event"."""
from mir import callee_of, op_local, op_place, op_int

RESULT_COMBINATORS = ("Result::<T, E>::map_err", "Result::<T, E>::map", "Result::<T, E>::and_then",
                      "Result::<T, E>::or_else", "Result::<T, E>::inspect_err",
                      "ErrInto", "err_into")


def follow_result(fn, bb):
    """From the call in block `bb` that produces a Result (or Option), follow
    the value through value-preserving combinators and `Try::branch` to the
    SwitchInt that tests it.  Returns dict(success=[bbs], failure=[bbs],
    switch_bb=.., via_try=bool) or None when the result is not tested by a
    discriminant switch (e.g. returned directly or passed on)."""
    t = fn.term(bb)
    cur = t["dest"]["l"]
    nxt = t.get("target")
    via_try = False
    steps = 0
    while nxt is not None and steps < 12:
        steps += 1
        b = fn.blocks[nxt]
        # discriminant test in this block?
        disc = None
        for s in b["s"]:
            if s["rv"]["k"] == "discr" and s["rv"]["pl"]["l"] == cur:
                disc = s["pl"]["l"]
            elif s["rv"]["k"] == "use" and op_local(s["rv"]["op"]) == cur and not s["pl"]["p"] \
                    and not (op_place(s["rv"]["op"]) or {}).get("p"):
                cur = s["pl"]["l"]   # plain move of the whole value
        tt = b["t"]
        if disc is not None and tt["k"] == "switch" and op_local(tt["discr"]) == disc:
            arms = dict((v, tgt) for v, tgt in tt["arms"])
            ty = fn.local_ty(cur)
            if via_try or ty.startswith("std::ops::ControlFlow"):
                succ = [arms[0]] if 0 in arms else []
                fail = [arms[1]] if 1 in arms else [tt["otherwise"]]
            elif ty.startswith("std::result::Result"):
                succ = [arms[0]] if 0 in arms else []
                fail = [arms[1]] if 1 in arms else [tt["otherwise"]]
                if 0 not in arms and 1 in arms:
                    succ = [tt["otherwise"]]
            elif ty.startswith("std::option::Option"):
                succ = [arms[1]] if 1 in arms else [tt["otherwise"]]
                fail = [arms[0]] if 0 in arms else [tt["otherwise"]]
            else:
                return None
            return {"success": succ, "failure": fail, "switch_bb": nxt, "via_try": via_try,
                    "tested_local": cur}
        if tt["k"] == "call" and tt["args"] and op_local(tt["args"][0]) == cur:
            c = callee_of(tt) or ""
            d = tt.get("callee") or ""
            if d.endswith("Try::branch") or c.endswith("Try>::branch") or "Try>::branch" in c:
                via_try = True
                cur = tt["dest"]["l"]
                nxt = tt.get("target")
                continue
            if any(x in c or x in d for x in RESULT_COMBINATORS):
                cur = tt["dest"]["l"]
                nxt = tt.get("target")
                continue
            return None
        if tt["k"] == "goto" and not b["s"]:
            nxt = tt["target"]
            continue
        if tt["k"] in ("goto", "drop"):
            nxt = tt["target"]
            continue
        return None
    return None


def ok_assign_blocks(fn):
    """Blocks that assign `_0 = Ok(..)` / `Some(..)` directly."""
    out = []
    for bb, _, s in fn.stmts():
        if s["pl"]["l"] == 0 and not s["pl"]["p"] and s["rv"]["k"] == "agg" \
                and s["rv"].get("agg") == "adt" and s["rv"].get("variant") in ("Ok", "Some"):
            out.append(bb)
    return out


def err_assign_blocks(fn):
    out = []
    for bb, _, s in fn.stmts():
        if s["pl"]["l"] == 0 and not s["pl"]["p"] and s["rv"]["k"] == "agg" \
                and s["rv"].get("agg") == "adt" and s["rv"].get("variant") in ("Err", "None"):
            out.append(bb)
    for bb, t in fn.calls():
        if t["dest"]["l"] == 0 and ("from_residual" in (callee_of(t) or "")
                                    or "from_residual" in (t.get("callee") or "")):
            out.append(bb)
    return sorted(set(out))


def must_pass(fn, start, targets, through, avoid_edges=()):
    """True iff every normal path from block `start` to any block in
    `targets` enters a block in `through` (start itself counts)."""
    through = set(through)
    if start in through:
        return True
    reach = fn.reachable(start, avoid=through, avoid_edges=avoid_edges)
    return not (reach & set(targets))


def can_reach(fn, start, targets, avoid=()):
    return bool(fn.reachable(start, avoid=avoid) & set(targets))
