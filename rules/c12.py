"""C12 (partial) — shape of the debugger's row production (compiler::cldb::CldbRun::step).

The trace is produced by one function that maps each RunStep transition of the stepping evaluator to at most one
row.  Decided, on every path of that function:

R12.field     each reported field comes from the matching component of the transition: Value <- OpResult.1,
              Final <- Done.1, Failure <- RunErr.1, Throw <- RunExn.1, Operator <- Op.0, Row <- self.row, and the
              context handed to the environment (Env / Arguments) is (Op.0, Op.1, Op.2) in that order;
R12.terminal  every terminal transition (Done, RunErr, RunExn) inserts its Final/Failure/Throw entry, marks the run
              ended and produces a row, on every path of its arm (the final row is never lost, a failed run ends);
R12.row       the row counter is incremented exactly when a row is returned: the increment dominates every
              `Some(row)` return, cannot reach a `None` return and is not in a loop (rows numbered consecutively);
R12.adopt     the state stored for the next step derives from the transition just computed and is stored before
              every return.

NOT decided: that the values are those of the consensus evaluator (C06's value-level part), grouping by function
(cldb_hierarchy), hex-vs-source equivalence."""
import runner
from flow import Flow
from mir import callee_of, op_const, op_local, op_place, rv_operands
from paths import must_pass
from report import Report

PID = "C12"
STEP = "compiler::cldb::CldbRun::step"
RUN_STEP = "compiler::clvm::run_step"
FIELDS = {          # key -> (variant, field)
    "Value": ("OpResult", "1"),
    "Final": ("Done", "1"),
    "Failure": ("RunErr", "1"),
    "Throw": ("RunExn", "1"),
    "Operator": ("Op", "0"),
}
TERMINAL = {"Done": "Final", "RunErr": "Failure", "RunExn": "Throw"}


def downcast_fields(f, fl, l):
    """(variant, field) pairs of downcast places in the pure slice of local l."""
    out = set()
    src = fl.back_pure([l], stop=lambda x: 0 < x <= f.argc) - set(range(1, f.argc + 1))
    for _, _, s in f.stmts():
        if fl.node(s["pl"]) in src:
            for o in rv_operands(s["rv"]):
                p = op_place(o)
                if not p:
                    continue
                var = None
                for e in p["p"]:
                    if isinstance(e, dict) and "dc" in e:
                        var = e["dc"]
                    elif isinstance(e, dict) and "f" in e and var is not None:
                        out.add((var, str(e["f"])))
    # downcast projections used directly as call arguments
    for _, t in f.calls():
        if fl.node(t["dest"]) in src:
            for a in t["args"]:
                p = op_place(a)
                if not p:
                    continue
                var = None
                for e in p["p"]:
                    if isinstance(e, dict) and "dc" in e:
                        var = e["dc"]
                    elif isinstance(e, dict) and "f" in e and var is not None:
                        out.add((var, str(e["f"])))
    return out


def self_fields(f, fl, l, selfs=(1,)):
    out = set()
    src = fl.back_pure([l], stop=lambda x: 0 < x <= f.argc) - set(range(1, f.argc + 1))
    for _, _, s in f.stmts():
        if fl.node(s["pl"]) in src:
            for o in rv_operands(s["rv"]):
                p = op_place(o)
                if p and p["l"] in selfs:
                    out |= {e["f"] for e in p["p"] if isinstance(e, dict) and "f" in e}
    return out


def self_locals(f):
    """Locals that are `self` itself: parameter 1 and whole-value copies / reborrows of it (as produced when a helper
    method taking `&mut self` is inlined)."""
    out = {1}
    changed = True
    while changed:
        changed = False
        for _, _, s in f.stmts():
            if s["pl"]["p"] or s["pl"]["l"] in out:
                continue
            rv = s["rv"]
            src = None
            if rv["k"] == "use":
                src = op_place(rv["op"])
            elif rv["k"] == "ref":
                src = rv["pl"]
            if src is not None and src["l"] in out and all(e == "*" for e in src["p"]):
                out.add(s["pl"]["l"])
                changed = True
    return out


def is_self_field(pl, selfs, name):
    return pl["l"] in selfs and [e["f"] for e in pl["p"] if isinstance(e, dict) and "f" in e][-1:] == [name]


def key_of(fl, l):
    ks = set()
    for x in fl.back_pure([l]):
        for c in fl.consts.get(x, []):
            if "str" in c:
                ks.add(c["str"])
    return ks


def run(tier="quick", replay=None):
    R = Report(PID, tier,
               "PARTIAL claim. CldbRun::step is the only producer of trace rows; on every path of its MIR each reported "
               "field derives from the matching component of the RunStep transition, terminal transitions always insert "
               "their Final/Failure/Throw entry, end the run and produce a row, the row counter is incremented exactly "
               "when a row is returned, and the next state is the transition just computed. Necessary conditions of a "
               "faithful trace; that the reported values equal the consensus evaluator's is NOT decided.",
               "MIR value-flow (pure slices to enum downcasts) + must-pass-through / dominance")
    prog, _, infos = runner.load("default")
    R.facts_info = infos
    R.trusted = ["rustc MIR construction"]
    R.assumptions = ["partial: equality of the reported values with the consensus evaluator is value-level (see C06) and not decided",
                     "cldb_hierarchy's grouping and hex_to_modern_sexp are not analysed"]
    f0 = prog.fn(STEP)
    if f0 is None:
        R.viol("R12", "R12|anchor-lost|step", "compiler::cldb", "anchor lost: CldbRun::step")
        return R.finalize()
    # private helpers of the same module are inlined: splitting the row production into helper methods (or folding them
    # back) does not change what the rules see
    import inline
    base = inline.default_pred(prog, f0)
    f = inline.inlined(prog, f0, pred=lambda g: base(g) and inline.same_module(f0, g) and g.path != RUN_STEP, depth=2)
    fl = Flow(f)
    site = "%s:%s" % (f.file, f.line)
    rets = f.return_blocks()
    SELF = self_locals(f)

    # ---------------- R12.field ------------------------------------------------------------------
    inserts = {}
    for bb, t in f.calls():
        c = callee_of(t) or ""
        if c.endswith("::insert") and "BTreeMap" in c and len(t["args"]) >= 3:
            kl, vl = op_local(t["args"][1]), op_local(t["args"][2])
            if kl is None or vl is None:
                continue
            for k in key_of(fl, kl):
                inserts.setdefault(k, []).append((bb, vl))
    nfield = 0
    for key, (var, fld) in sorted(FIELDS.items()):
        sites = inserts.get(key, [])
        if not sites:
            R.viol("R12.field", "R12.field|anchor-lost|%s" % key, site, "anchor lost: no insertion of the %r entry in CldbRun::step" % key, fn=STEP)
            continue
        for bb, vl in sites:
            nfield += 1
            got = downcast_fields(f, fl, vl)
            R.check((var, fld) in got, "R12.field", "R12.field|%s" % key, f.loc(bb),
                    "auto: %r is computed from %s.%s of the transition" % (key, var, fld),
                    "the %r entry of a trace row is not computed from %s.%s of the transition it reports (derives from %s)" % (
                        key, var, fld, sorted(got) or "no transition component"), fn=STEP)
    for bb, vl in inserts.get("Row", []):
        nfield += 1
        R.check("row" in self_fields(f, fl, vl, SELF), "R12.field", "R12.field|Row", f.loc(bb),
                "auto: 'Row' is the run's row counter", "the 'Row' entry is not the run's row counter", fn=STEP)
    # context handed to the environment: add_context(env, Op.0, Op.1, Some(Op.2), out)
    ac = [(bb, t) for bb, t in f.calls() if (callee_of(t) or t.get("callee") or "").endswith("add_context")]
    if not ac:
        R.viol("R12.field", "R12.field|anchor-lost|add_context", site, "anchor lost: no add_context call in CldbRun::step", fn=STEP)
    for bb, t in ac:
        nfield += 1
        want = [("Op", "0"), ("Op", "1"), ("Op", "2")]
        got = []
        for a in t["args"][1:4]:
            l = op_local(a)
            got.append(downcast_fields(f, fl, l) if l is not None else set())
        ok = len(got) == 3 and all(want[i] in got[i] and not (set(want) - {want[i]}) & got[i] for i in range(3))
        R.check(ok, "R12.field", "R12.field|context-order", f.loc(bb),
                "auto: the environment is given (operator, context, arguments) = (Op.0, Op.1, Op.2)",
                "the row's context is not built from (Op.0, Op.1, Op.2) in that order (got %s): rows would attribute an operator to "
                "the wrong arguments or environment" % [sorted(g) for g in got], fn=STEP)
        # ... and the arguments are always handed over: the pending row is a map that keeps what earlier transitions wrote,
        # so an operator whose Arguments entry is skipped (None) is printed with the arguments of an earlier operator
        if len(t["args"]) > 3:
            al = op_local(t["args"][3])
            vs = set()
            chain = {al} if al is not None else set()
            grew = True
            while grew:          # whole-value copies of the Option only (not what its payload was computed from)
                grew = False
                for _, _, st in f.stmts():
                    if fl.node(st["pl"]) in chain and not st["pl"]["p"] and st["rv"]["k"] == "use":
                        pp = op_place(st["rv"]["op"])
                        if pp is not None and not pp["p"] and pp["l"] not in chain:
                            chain.add(pp["l"])
                            grew = True
            for x in chain:
                for _, _, st in f.stmts():
                    if fl.node(st["pl"]) == x and not st["pl"]["p"] and st["rv"]["k"] == "agg" and st["rv"].get("variant") in ("Some", "None"):
                        vs.add(st["rv"]["variant"])
            c3 = op_const(t["args"][3]) if t["args"][3].get("k") == "const" else None
            R.check("None" not in vs and c3 is None and "Some" in vs, "R12.field", "R12.field|arguments-always-written", f.loc(bb),
                    "auto: every operator row is given its own arguments (the Arguments operand is Some(..) on every path)",
                    "CldbRun::step hands the row's context over without arguments on some path (the Arguments operand can be None): the "
                    "pending row keeps the Arguments entry of an earlier operator, so the row shows an operator with arguments it was "
                    "not applied to", fn=STEP)
    R.floor("R12.field", "reported fields traced to their transition component", nfield, 7, site)

    # ---------------- R12.terminal ---------------------------------------------------------------
    def is_true(op):
        c = (op.get("c") or {}) if op.get("k") == "const" else {}
        return c.get("bool") is True or c.get("int") in (1, "1")
    ended_blocks = [bb for bb, _, s in f.stmts() if is_self_field(s["pl"], SELF, "ended") and s["rv"]["k"] == "use" and is_true(s["rv"]["op"])]
    # produce flag: the bool local tested right before the row increment
    inc_blocks = []
    for bb, _, s in f.stmts():
        if is_self_field(s["pl"], SELF, "row"):
            inc_blocks.append(bb)
    # the bool(s) deciding whether a row is returned: everything the guard of the row-counter increment is copied from
    flags = set()
    best = -1
    doms = f.dominators()
    for bb, b in enumerate(f.blocks):
        t = b["t"]
        if t["k"] != "switch" or b.get("cleanup") or not inc_blocks:
            continue
        l = op_local(t["discr"])
        if l is None or f.local_ty(l) != "bool" or not all(f.dominates(bb, ib) for ib in inc_blocks):
            continue
        sides = [tgt for tgt in f.succ(bb) if any(ib in f.reachable(tgt, avoid=[x for x in f.succ(bb) if x != tgt]) for ib in inc_blocks)]
        if len(sides) != 1:
            continue
        depth_ = len(doms.get(bb, ()))
        if depth_ > best:
            # copies only (use of a whole bool local): the flag and what it is copied from (e.g. a helper's return slot)
            chain = {l}
            changed = True
            while changed:
                changed = False
                for _, _, s in f.stmts():
                    if s["pl"]["l"] in chain and not s["pl"]["p"] and s["rv"]["k"] == "use":
                        sl = op_local(s["rv"]["op"])
                        if sl is not None and not op_place(s["rv"]["op"])["p"] and sl not in chain and f.local_ty(sl) == "bool":
                            chain.add(sl)
                            changed = True
            best = depth_
            flags = chain
    set_blocks = []
    for bb, _, s in f.stmts():
        if s["pl"]["l"] in flags and not s["pl"]["p"] and s["rv"]["k"] == "use" and s["rv"]["op"]["k"] == "const":
            c = s["rv"]["op"]["c"]
            if c.get("int") in (1, "1") or c.get("bool") is True:
                set_blocks.append(bb)
    # arm entries: blocks that first read a downcast of the terminal variant
    nterm = 0
    for var, key in sorted(TERMINAL.items()):
        arm = set()
        for bb, _, s in f.stmts():
            for o in rv_operands(s["rv"]):
                p = op_place(o)
                if p and any(isinstance(e, dict) and e.get("dc") == var for e in p["p"]):
                    arm.add(bb)
        for bb, t in f.calls():
            for a in t["args"]:
                p = op_place(a)
                if p and any(isinstance(e, dict) and e.get("dc") == var for e in p["p"]):
                    arm.add(bb)
        if not arm:
            R.viol("R12.terminal", "R12.terminal|anchor-lost|%s" % var, site, "anchor lost: no arm reading the %s transition" % var, fn=STEP)
            continue
        doms = f.dominators()
        entry = min(arm, key=lambda b: len(doms.get(b, ())))
        nterm += 1
        key_blocks = [bb for bb, _ in inserts.get(key, [])]
        ok_key = bool(key_blocks) and must_pass(f, entry, rets, key_blocks)
        ok_end = bool(ended_blocks) and must_pass(f, entry, rets, ended_blocks)
        ok_row = bool(set_blocks) and must_pass(f, entry, rets, set_blocks)
        R.check(ok_key and ok_end and ok_row, "R12.terminal", "R12.terminal|%s" % var, f.loc(entry),
                "auto: every path of the %s arm inserts %r, marks the run ended and produces a row" % (var, key),
                "a path through the %s arm of CldbRun::step reaches the return without %s: the trace would %s" % (
                    var, " / ".join(x for x, ok in (("inserting %r" % key, ok_key), ("setting ended", ok_end), ("producing a row", ok_row)) if not ok),
                    "lose its final entry" if not (ok_key and ok_row) else "never end"), fn=STEP)
    R.floor("R12.terminal", "terminal transition arms", nterm, 3, site)

    # ---------------- R12.row ---------------------------------------------------------------------
    somes = [bb for bb, _, s in f.stmts() if s["pl"]["l"] == 0 and not s["pl"]["p"] and s["rv"]["k"] == "agg" and s["rv"].get("variant") == "Some"]
    nones = [bb for bb, _, s in f.stmts() if s["pl"]["l"] == 0 and not s["pl"]["p"] and s["rv"]["k"] == "agg" and s["rv"].get("variant") == "None"]
    incs = []
    for bb, _, s in f.stmts():
        if is_self_field(s["pl"], SELF, "row"):
            l = None
            for o in rv_operands(s["rv"]):
                l = op_local(o) if op_local(o) is not None else l
            # the stored value is row + 1
            plus1 = False
            if l is not None:
                for x in fl.back_pure([l]):
                    for _, _, s2 in f.stmts():
                        if fl.node(s2["pl"]) == x and s2["rv"]["k"] == "bin" and s2["rv"]["op"] in ("Add", "AddWithOverflow", "AddUnchecked"):
                            from mir import op_int
                            if 1 in (op_int(s2["rv"]["a"]), op_int(s2["rv"]["b"])):
                                plus1 = True
            incs.append((bb, plus1))
    ok = len(incs) == 1 and incs[0][1] and bool(somes) and all(f.dominates(incs[0][0], sb) for sb in somes) and \
        not (f.reachable(incs[0][0]) & set(nones)) and incs[0][0] not in f.reachable_from_set([x for x in f.succ(incs[0][0])])
    R.check(ok, "R12.row", "R12.row|increment-iff-row-returned", f.loc(incs[0][0]) if incs else site,
            "auto: self.row += 1 dominates every Some(row) return, never precedes a None return and runs once per call",
            "the row counter is not incremented exactly when a row is returned (increments=%s, Some returns=%d, None returns=%d): "
            "rows would not be numbered consecutively" % ([(f.loc(b), p) for b, p in incs], len(somes), len(nones)), fn=STEP)

    # ---------------- R12.adopt -------------------------------------------------------------------
    rs = [(bb, t) for bb, t in f.calls() if callee_of(t) == RUN_STEP]
    stores = []
    for bb, b in enumerate(f.blocks):
        if b.get("cleanup"):
            continue
        for s in b["s"]:
            if is_self_field(s["pl"], SELF, "step"):
                l = [op_local(o) for o in rv_operands(s["rv"]) if op_local(o) is not None]
                stores.append((bb, l[0] if l else None))
        t = b["t"]
        if t["k"] == "call" and is_self_field(t["dest"], SELF, "step"):
            stores.append((bb, None))
    ok = False
    why = "no store to self.step"
    if rs and stores:
        rdest = rs[0][1]["dest"]["l"]
        new_step = fl.forward([rdest])
        good = []
        for bb, l in stores:
            if l is not None and l in new_step:
                good.append(bb)
            elif l is None:
                t = f.term(bb)
                if any(op_local(a) in new_step for a in t["args"] if op_local(a) is not None):
                    good.append(bb)
        ok = bool(good) and all(must_pass(f, 0, [r], good) for r in rets)
        why = "stores deriving from run_step's result: %d of %d; not on every path to the return" % (len(good), len(stores))
    R.check(ok, "R12.adopt", "R12.adopt|next-state-is-transition", site,
            "auto: self.step is assigned from the transition just computed on every path to the return",
            "CldbRun::step does not store the transition it just computed as the next state on every path (%s)" % why, fn=STEP)
    # ---------------- R12.pair -------------------------------------------------------------------
    # A row is opened when an operator is about to be applied (Op with no arguments left: `in_expr = true`) and closed by
    # the next OpResult, whose value is printed as the row's Value.  Operators the stepping evaluator finishes WITHOUT an
    # OpResult of their own (apply continues as a Step, `i` as a Done) leave the row open, so the next OpResult - the
    # result of some inner sub-expression or path lookup - is reported as their Value.  Necessary for faithful rows:
    # either the Step transition closes the pending row (clears in_expr on every path of its arm), or the OpResult arm
    # decides on the result's parent (OpResult.2) whether the result belongs to the open row.
    adt = prog.adts.get("compiler::clvm::RunStep")
    vidx = {v["name"]: i for i, v in enumerate(adt["variants"])} if adt else {}
    step_entry = None
    for bb, b in enumerate(f.blocks):
        t = b["t"]
        if t["k"] != "switch" or b.get("cleanup") or "Step" not in vidx:
            continue
        dl = op_local(t["discr"])
        if dl is None:
            continue
        is_runstep_discr = False
        for _, _, st in f.stmts():
            if st["pl"]["l"] == dl and st["rv"]["k"] == "discr":
                pp = st["rv"]["pl"]["p"]
                if any(isinstance(e, dict) and e.get("dc") == "Ok" for e in pp) and not any(isinstance(e, dict) and e.get("dc") in vidx for e in pp):
                    is_runstep_discr = True
        if is_runstep_discr:
            arms = dict((v, tgt) for v, tgt in t["arms"])
            step_entry = arms.get(vidx["Step"], t["otherwise"])
    clear_blocks = [bb for bb, _, st in f.stmts() if is_self_field(st["pl"], SELF, "in_expr") and st["rv"]["k"] == "use"
                    and st["rv"]["op"]["k"] == "const" and not is_true(st["rv"]["op"])]
    closes = step_entry is not None and bool(clear_blocks) and must_pass(f, step_entry, rets, clear_blocks)
    # alternative: the OpResult arm looks at the result's parent
    uses_parent = False
    for bb, b in enumerate(f.blocks):
        t = b["t"]
        ops = []
        if t["k"] == "switch":
            ops = [t["discr"]]
        elif t["k"] == "call":
            ops = list(t["args"])
        for o in ops:
            l = op_local(o)
            if l is not None and ("OpResult", "2") in downcast_fields(f, fl, l):
                uses_parent = True
    if step_entry is None:
        R.viol("R12.pair", "R12.pair|anchor-lost|Step-arm", site, "anchor lost: the match on the RunStep transition in CldbRun::step", fn=STEP)
    else:
        R.check(closes or uses_parent, "R12.pair", "R12.pair|open-row-closed-by-own-result", f.loc(step_entry),
                "auto: a row left open by an operator that finishes without its own OpResult is %s" % (
                    "closed on the Step transition" if closes else "matched against the result's parent"),
                "a row opened for an operator that the stepping evaluator finishes without an OpResult of its own (apply, which "
                "continues as a Step; `i`) stays open: CldbRun::step neither clears in_expr on the Step transition nor looks at the "
                "result's parent, so the next OpResult - an inner sub-expression or path lookup - is printed as that operator's "
                "Value (a row that is not true of the consensus evaluator)", fn=STEP)
    # ---------------- R12.hex ---------------------------------------------------------------------
    # hex-supplied programs are turned into the rich form the debugger steps; atoms must come from the crate's one
    # CLVM->rich converter (convert_from_clvm_rs, whose choices preserve the bytes) - a second, local way of building
    # leaves from allocator bytes is an unchecked conversion (reported even if it happened to be right)
    HEX = "compiler::cldb::hex_to_modern_sexp"
    CONV = "compiler::clvm::convert_from_clvm_rs"
    fam = [g for g in prog.fns.values() if g.path.startswith(HEX)]
    if not fam:
        R.viol("R12.hex", "R12.hex|anchor-lost", "compiler::cldb", "anchor lost: hex_to_modern_sexp")
    else:
        nconv = sum(1 for g in fam for _, t in g.calls() if callee_of(t) == CONV)
        R.floor("R12.hex", "leaf conversions through convert_from_clvm_rs", nconv, 1, "%s:%s" % (fam[0].file, fam[0].line))
        for g in fam:
            gfl = Flow(g)
            for bb, _, st in g.stmts():
                rv = st["rv"]
                if rv["k"] == "agg" and "sexp::SExp" in rv.get("adt", "") and rv.get("variant") in ("Integer", "Atom", "QuotedString"):
                    payload = op_local(rv["ops"][-1])
                    from_alloc = payload is not None and gfl.derives_from_call(
                        payload, lambda c: c.endswith("Allocator::atom") or c.endswith("Allocator::node") or c.endswith("Allocator::number"))
                    R.check(not from_alloc, "R12.hex", "R12.hex|local-leaf|%s" % rv.get("variant"), "%s:%s" % (g.file, st.get("line", g.line)),
                            "auto: leaf is not built from allocator bytes locally",
                            "%s builds an SExp::%s directly from the allocator's atom bytes instead of converting the atom with "
                            "convert_from_clvm_rs: redundant sign/zero bytes are renormalised, so a hex-supplied program is not the "
                            "program its source form denotes" % (g.path, rv.get("variant")), fn=g.path)
    return R.finalize()
