"""C07 (partial) — tree-hash framing agreement and integer-zero agreement.

Decides two structural clauses that are necessary for "the tree hash computed on
the rich form, on the CLVM form and the consensus tree hash are equal":

R07.frame  every tree-hash implementation in the crate frames a pair as
           H(0x02 || H(first) || H(rest)) and an atom as H(0x01 || bytes): same
           prefix constants, same child order (sibling agreement, compared with
           the format's definition);
R07.zero   hashing and CLVM conversion of the rich form agree on WHEN an integer
           zero is the empty atom (same guard: int-mode setting && value == 0).

NOT decided: losslessness of the conversions, equality of hashes for all byte
strings (big-integer sign/length arithmetic), the comparison semantics."""
import re
import runner
import inline
from flow import Flow
from mir import callee_of, op_const, op_int, op_local, op_place, rv_operands
from defs import const_ints
from report import Report

PID = "C07"
IMPLS = [
    ("compiler::clvm::sha256tree", "compiler::clvm::sha256tree_from_atom", "modern rich form"),
    ("classic::clvm_tools::sha256tree::sha256tree", None, "CLVM form (classic tools)"),
    ("compiler::debug::build_table_mut", None, "symbol/relabel table builder"),
]
ABSORB = ("Digest>::update", "Digest::update", "Bytes::concat")
# a preimage assembled in a byte vector before it is hashed: push(tag) / extend_from_slice(part) are feeds as well
VEC_FEEDS = ("Vec::<T, A>::push", "Vec::<T, A>::extend_from_slice")


def is_feed(t):
    c = callee_of(t) or ""
    if any(x in c for x in ABSORB):
        return True
    return any(c.endswith(x) for x in VEC_FEEDS) and (t.get("gargs") or [""])[0] == "u8"

NO_INLINE = {"compiler::clvm::sha256tree", "compiler::debug::build_table_mut", "classic::clvm_tools::sha256tree::sha256tree",
             "compiler::clvm::convert_to_clvm_rs", "compiler::clvm::convert_from_clvm_rs", "compiler::clvm::run", "compiler::clvm::run_step"}


def dom_sorted(f, blocks):
    """Blocks ordered so that a dominator comes before the blocks it dominates."""
    blocks = list(dict.fromkeys(blocks))
    return sorted(blocks, key=lambda b: len(f.dominators().get(b, ())))


def fwd_pure(fl, start):
    """Forward closure over pure data-dependence edges only (no alias / out-parameter edges)."""
    inv = {}
    for v, us in fl.pbwd.items():
        for u in us:
            inv.setdefault(u, set()).add(v)
    seen = set(start)
    todo = list(start)
    while todo:
        x = todo.pop()
        for y in inv.get(x, ()):
            if y not in seen:
                seen.add(y)
                todo.append(y)
    return seen


def child_rank(f, fl, arg_op):
    """Which child of the pair an argument denotes: smallest field index of a Cons/Pair downcast in its pure slice."""
    l = op_local(arg_op)
    if l is None:
        return None
    idx = []
    for x in fl.back_pure([l]):
        for bb, i, s in f.stmts():
            if fl.node(s["pl"]) == x:
                for o in rv_operands(s["rv"]):
                    p = op_place(o)
                    if p and any(isinstance(e, dict) and e.get("dc") in ("Cons", "Pair") for e in p["p"]):
                        flds = [int(e["f"]) for e in p["p"] if isinstance(e, dict) and "f" in e and str(e["f"]).isdigit()]
                        if flds:
                            idx.append(flds[-1])
    return min(idx) if idx else None


def _array_order(f, fl, dl, derived):
    """dl iterates over an array literal whose elements are, in order, H(first)- and H(rest)-derived: ['first', 'rest']."""
    for x in fl.back_pure([dl]):
        for _, _, st in f.stmts():
            if fl.node(st["pl"]) == x and st["rv"]["k"] == "agg" and st["rv"].get("agg") == "array" and len(st["rv"]["ops"]) >= 2:
                out = []
                for o in st["rv"]["ops"]:
                    ol = op_local(o)
                    if ol is None:
                        return None
                    if ol in derived["first"] and ol not in derived["rest"]:
                        out.append("first")
                    elif ol in derived["rest"] and ol not in derived["first"]:
                        out.append("rest")
                    else:
                        return None
                return out
    return None


def frame_of(prog, path, atom_helper):
    """Return (pair_frame, atom_frame, problems).  Frames are lists like [2, 'first', 'rest'] / [1, 'bytes']."""
    f0 = prog.fn(path)
    if f0 is None:
        return None, None, ["function %s not found" % path]
    # same-module helpers (atom/pair hashing split out into functions) are inlined, so that extracting or folding back a
    # helper does not change the recovered frames
    f = inline.inlined(prog, f0, pred=lambda g: g.parent == f0.parent and g.kind in ("Fn", "AssocFn") and len(g.blocks) <= 250
                       and g.path not in NO_INLINE, depth=2)
    atom_helper = None
    fl = Flow(f)
    problems = []
    recs = [(bb, t) for bb, t in f.calls() if callee_of(t) == path]
    # recursive calls that hash the two children (exclude tail re-dispatch such as Atom re-wrapping)
    child_calls = []
    for bb, t in recs:
        ranks = [child_rank(f, fl, a) for a in t["args"]]
        ranks = [r for r in ranks if r is not None]
        if ranks:
            child_calls.append((bb, t, min(ranks)))
    pair_frame = None
    if len(child_calls) >= 2:
        child_calls.sort(key=lambda x: x[2])
        first, rest = child_calls[0], child_calls[1]
        derived = {"first": fwd_pure(fl, [first[1]["dest"]["l"]]), "rest": fwd_pure(fl, [rest[1]["dest"]["l"]])}
        later = [bb for bb, t in f.calls() if is_feed(t)
                 and f.dominates(first[0], bb) and f.dominates(rest[0], bb)]
        seq = []
        base_seen = False
        for bb in dom_sorted(f, later):
            t = f.term(bb)
            data = t["args"][1] if len(t["args"]) > 1 else None
            recv = t["args"][0]
            if "concat" in (callee_of(t) or "") and not base_seen:
                base_seen = True
                ints = [v for v in const_ints(fl.consts_into([op_local(recv)])) if 0 < v < 256] if op_local(recv) is not None else []
                if ints:
                    seq.append(ints[0] if len(set(ints)) == 1 else sorted(set(ints)))
            dl = op_local(data) if data else None
            if dl is not None and dl in derived["first"] and dl not in derived["rest"]:
                seq.append("first")
            elif dl is not None and dl in derived["rest"] and dl not in derived["first"]:
                seq.append("rest")
            elif dl is not None and dl in derived["rest"] and dl in derived["first"] and _array_order(f, fl, dl, derived):
                seq.extend(_array_order(f, fl, dl, derived))      # one feed per element of an ordered `&[a, b]` of parts
            elif dl is not None:
                ints = [v for v in const_ints(fl.consts_into([dl])) if 0 < v < 256]
                c = op_const(data)
                seq.append(ints[0] if len(set(ints)) == 1 else ("?" if not ints else sorted(set(ints))))
            else:
                c = op_const(data) if data else None
                seq.append(op_int(data) if data and op_int(data) is not None else "?")
        pair_frame = seq
    else:
        problems.append("could not find the two recursive calls hashing the children of a pair")
    # atom frame(s): hasher feeds outside the pair arm, grouped into dominance chains (one chain = one way of hashing an atom)
    atom_frames = None
    g = prog.fn(atom_helper) if atom_helper else f
    if g is None:
        problems.append("atom helper %s not found" % atom_helper)
    else:
        gfl = Flow(g) if g is not f else fl
        events = [bb for bb, t in g.calls() if is_feed(t)]
        if atom_helper is None:
            # events of the atom arm: not dominated by a child-hashing recursive call
            events = [bb for bb in events if not any(g.dominates(cb, bb) for cb, _, _ in child_calls)]
        chains = []
        for bb in dom_sorted(g, events):
            for ch in chains:
                if g.dominates(ch[-1], bb):
                    ch.append(bb)
                    break
            else:
                chains.append([bb])
        atom_frames = []
        for ch in chains:
            seq = []
            base_seen = False
            for bb in ch:
                t = g.term(bb)
                data = t["args"][1] if len(t["args"]) > 1 else None
                recv = t["args"][0]
                if "concat" in (callee_of(t) or "") and not base_seen:
                    base_seen = True
                    ints = [v for v in const_ints(gfl.consts_into([op_local(recv)])) if 0 < v < 256] if op_local(recv) is not None else []
                    if ints:
                        seq.append(ints[0] if len(set(ints)) == 1 else sorted(set(ints)))
                dl = op_local(data) if data else None
                if dl is None:
                    seq.append(op_int(data) if data is not None and op_int(data) is not None else "?")
                    continue
                seq.append(classify_bytes(g, gfl, dl))
            atom_frames.append(seq)
        # arguments handed to the atom helper by the main function
        if atom_helper:
            for bb, t in f.calls():
                if callee_of(t) == atom_helper:
                    l = op_local(t["args"][0])
                    if l is not None:
                        k = classify_bytes(f, fl, l, allow_empty_const=True)
                        if k != "bytes":
                            atom_frames.append([1, k])
    return pair_frame, atom_frames, problems


COPYISH = ("Allocator::atom", "::as_ref", "::to_vec", "::clone", "Bytes::new", "::deref", "::borrow", "::as_slice", "Bytes::data",
           "::as_bytes", "::into", "::from", "::to_owned", "::into_vec", "exchange_malloc", "box_new", "Box::<T>::new",
           # walking an array of parts (`for part in parts.iter()`): the element is one of the parts, unchanged
           "::iter", "::into_iter", "Iterator>::next", "::copied", "::cloned")
NORMALISERS = ("util::u8_from_number",)


def classify_bytes(g, gfl, l, allow_empty_const=False):
    """'bytes' when the local is the atom's stored bytes through copies only (allocator accessor, a byte parameter, an
    Atom/QuotedString payload) or the crate's integer normaliser; a small constant when it is one; else 'computed:<callees>'."""
    src = gfl.back_pure([l])
    callees = set()
    for x in src:
        for _, t in gfl.call_defs.get(x, []):
            callees.add(callee_of(t) or t.get("callee") or "?")
    other = sorted(c for c in callees if not any(c.endswith(a) or a + ">" in c for a in COPYISH) and c not in NORMALISERS)
    from_store = any(c.endswith("Allocator::atom") or c in NORMALISERS for c in callees) or \
        any(1 <= x <= g.argc and ("u8" in g.local_ty(x) or "SExp" in g.local_ty(x)) for x in src)
    ints = [v for v in const_ints(gfl.consts_into([l])) if 0 <= v < 256]
    if not other and from_store:
        return "bytes"
    if not other and not from_store and ints and len(set(ints)) == 1:
        return ints[0]
    consts = []
    for x in src:
        consts.extend(gfl.consts.get(x, []))
    if not other and not from_store and not ints and any("[u8; 0]" in c.get("ty", "") for c in consts):
        return "bytes"      # the empty atom: &[]
    return "computed:" + ",".join(c.rsplit("::", 1)[-1] for c in other) if other else "?"


def check_roundtrip_guard(prog, R, rule, keyprefix):
    """convert_from_clvm_rs may present an atom as SExp::Integer only when re-encoding that integer with the crate's
    normaliser (u8_from_number, the function convert_to_clvm_rs and the hashes use) gives back the atom's bytes: the
    Integer construction must be dominated by the TRUE edge of `u8_from_number(n) == atom bytes` where n is the integer
    being constructed.  A byte-pattern test in its place is an unchecked re-implementation of the encoder."""
    CF = "compiler::clvm::convert_from_clvm_rs"
    f0 = prog.fn(CF)
    if f0 is None:
        R.viol(rule, "%s|anchor-lost|convert_from_clvm_rs" % keyprefix, "compiler::clvm", "anchor lost: convert_from_clvm_rs")
        return
    f = inline.inlined(prog, f0, pred=lambda g: g.parent == f0.parent and g.kind in ("Fn", "AssocFn") and len(g.blocks) <= 120
                       and g.path not in NO_INLINE and not g.path.endswith("::printable"), depth=2)
    fl = Flow(f)
    ints = [(bb, st) for bb, _, st in f.stmts() if st["rv"]["k"] == "agg" and st["rv"].get("variant") == "Integer"
            and "sexp::SExp" in st["rv"].get("adt", "")]
    if not ints:
        R.ob(rule, "%s|no-integer-presentation" % keyprefix, "%s:%s" % (f0.file, f0.line), "auto: convert_from_clvm_rs never builds SExp::Integer")
        return
    guards = []
    for bb, t in f.calls():
        c = callee_of(t) or ""
        if not (c.endswith("::eq") or c.endswith("::ne")):
            continue
        ls = [op_local(a) for a in t["args"] if op_local(a) is not None]
        enc = [l for l in ls if fl.derives_from_call(l, lambda cc: cc.endswith("util::u8_from_number"))]
        raw = [l for l in ls if fl.derives_from_call(l, lambda cc: cc.endswith("Allocator::atom")) and l not in enc]
        if enc and raw:
            nxt = t.get("target")
            sw = f.term(nxt) if nxt is not None else None
            if sw and sw["k"] == "switch":
                arms = dict((v, x) for v, x in sw["arms"])
                true_b = sw["otherwise"] if 0 in arms else arms.get(1)
                false_b = arms.get(0, sw["otherwise"])
                if c.endswith("::ne"):
                    true_b, false_b = false_b, true_b
                guards.append((bb, true_b, false_b, enc))
    for bb, st in ints:
        nl = op_local(st["rv"]["ops"][-1])
        ok = False
        for gb, tb, fb, enc in guards:
            if tb is None:
                continue
            region = f.reachable(tb, avoid=[fb] if fb is not None else ())
            same_number = nl is not None and any(set(fl.back_pure([nl])) & set(fl.back_pure([e])) - set(range(0, f.argc + 1)) for e in enc)
            if bb in region and bb not in f.reachable(fb, avoid=[tb]) and same_number:
                ok = True
        R.check(ok, rule, "%s|integer-only-if-reencoding-matches" % keyprefix, "%s:%s" % (f0.file, st.get("line", f0.line)),
                "auto: SExp::Integer is built only on the true edge of u8_from_number(n) == the atom's bytes",
                "convert_from_clvm_rs presents an atom as SExp::Integer without the guard `u8_from_number(n) == atom bytes` on the "
                "same number: an atom whose bytes are not the minimal encoding of its value (redundant 0x00 / 0xff) would come back "
                "shorter, and the rich form's hash would differ from the CLVM form's", fn=CF)


def run(tier="quick", replay=None):
    R = Report(PID, tier,
               "PARTIAL claim. Sibling agreement of the crate's three tree-hash implementations, recovered from MIR as the "
               "ordered sequence of absorbed items: pair = [0x02, H(first), H(rest)], atom = [0x01, bytes] (the CLVM tree-hash "
               "definition); and agreement between hashing and conversion of the rich form on when an integer zero is the "
               "empty atom. These are necessary conditions of the hash-equality clause; the value-level clauses (lossless "
               "conversion, equality for all byte strings) are NOT decided.",
               "MIR event-sequence extraction + sibling comparison")
    prog, _, infos = runner.load("default")
    R.facts_info = infos
    R.trusted = ["rustc MIR construction", "CLVM tree hash definition: sha256(1 || atom) / sha256(2 || left || right)"]
    R.assumptions = ["partial: lossless conversion and hash equality over all byte strings are value-level and not decided",
                     "the consensus tree hash (clvm_utils) is outside the analysed crates"]
    n = 0
    for path, helper, what in IMPLS:
        pf, af, problems = frame_of(prog, path, helper)
        f = prog.fn(path)
        site = "%s:%s" % (f.file, f.line) if f else path
        if problems:
            R.viol("R07.frame", "R07.frame|anchor-lost|%s" % path, site, "anchor lost in %s: %s" % (path, "; ".join(problems)), fn=path)
            continue
        n += 1
        R.check(pf == [2, "first", "rest"], "R07.frame", "R07.frame|pair|%s" % path, site,
                "auto: %s frames a pair as sha256(0x02 || H(first) || H(rest))" % what,
                "%s (%s) frames a pair as %s; the tree hash is sha256(0x02 || H(first) || H(rest)) — its hashes would disagree "
                "with the other implementations and with consensus" % (path, what, pf), fn=path)
        bad = [fr for fr in af if fr != [1, "bytes"]]
        R.check(bool(af) and not bad, "R07.frame", "R07.frame|atom|%s" % path, site,
                "auto: %s frames an atom as sha256(0x01 || the atom's stored bytes) (%d way(s))" % (what, len(af)),
                "%s (%s) frames an atom as %s; the tree hash is sha256(0x01 || bytes) over the atom's stored bytes (allocator "
                "accessor, atom payload or u8_from_number) — bytes recomputed by another routine are an unchecked second encoding" % (
                    path, what, bad), fn=path)
    R.floor("R07.frame", "tree-hash implementations", n, 3)

    # ---------------- R07.zero ------------------------------------------------------------
    def zero_guard(path):
        """Callee names guarding the empty-atom treatment of SExp::Integer in function path."""
        f = prog.fn(path)
        if f is None:
            return None
        # the Integer arm: blocks that read a place with downcast Integer
        arm_blocks = set()
        for bb, i, s in f.stmts():
            for o in rv_operands(s["rv"]):
                p = op_place(o)
                if p and any(isinstance(e, dict) and e.get("dc") == "Integer" for e in p["p"]):
                    arm_blocks.add(bb)
        if not arm_blocks:
            return None
        region = set()
        for b in arm_blocks:
            region |= f.reachable(b)
        names = set()
        for bb, t in f.calls():
            if bb in region:
                c = callee_of(t) or ""
                nm = c.rsplit("::", 1)[-1]
                if nm in ("setting", "bi_zero") or (nm in ("eq", "ne") and "BigInt" in c) or nm == "is_zero":
                    names.add(nm)
        return names
    g_hash = zero_guard("compiler::clvm::sha256tree")
    g_conv = zero_guard("compiler::clvm::convert_to_clvm_rs")
    R.check(g_hash is not None and g_conv is not None and g_hash == g_conv and "setting" in g_hash,
            "R07.zero", "R07.zero|hash-vs-convert", "compiler::clvm",
            "auto: sha256tree and convert_to_clvm_rs guard the empty-atom encoding of integer zero alike: %s" % sorted(g_hash or []),
            "hashing and CLVM conversion of the rich form disagree on when integer zero is the empty atom (sha256tree tests %s, "
            "convert_to_clvm_rs tests %s): a value's tree hash would differ from the hash of its CLVM encoding in one int mode" % (
                sorted(g_hash) if g_hash is not None else None, sorted(g_conv) if g_conv is not None else None))

    # mode-unaware nil tests: SExp::nilp() answers true for Integer 0 in BOTH int modes, so deciding "this is the empty atom"
    # with it inside a converter/hasher loses the legacy-mode encoding [0] (0x00 converted from CLVM is Integer 0 there)
    NILP = "compiler::sexp::SExp::nilp"
    control = prog.fn("compiler::sexp::SExp::equal_to")
    R.check(control is not None and any(callee_of(t) == NILP for _, t in control.calls()), "R07.zero", "R07.zero|control|nilp-resolves",
            "compiler::sexp", "auto: positive control - equal_to's call of SExp::nilp is visible to the rule",
            "positive control failed: SExp::nilp is not seen called from equal_to (callee naming changed?)")
    for root in ("compiler::clvm::convert_to_clvm_rs", "compiler::clvm::sha256tree", "compiler::debug::build_table_mut"):
        hits = [(g, bb) for g in prog.family(root) for bb, t in g.calls() if callee_of(t) == NILP]
        g0 = prog.fn(root)
        R.check(g0 is not None and not hits, "R07.zero", "R07.zero|mode-unaware-nil-test|%s" % root,
                hits[0][0].loc(hits[0][1]) if hits else (("%s:%s" % (g0.file, g0.line)) if g0 else root),
                "auto: %s never decides nil-ness with the mode-unaware SExp::nilp" % root,
                "%s decides nil-ness with SExp::nilp(), which is true for Integer 0 in both integer modes: in legacy mode the atom "
                "0x00 (Integer 0 after conversion from CLVM) would be encoded/hashed as the empty atom" % root, fn=root)

    check_roundtrip_guard(prog, R, "R07.rt", "R07.rt")

    # ---------------- R07.hash ------------------------------------------------------------
    # k1 == k2 must imply hash(k1) == hash(k2): SExp::equal_to ignores locations / spelling and compares atoms by their
    # bytes, so <SExp as Hash>::hash may feed the hasher only child nodes and byte vectors, and must normalise integers
    # with the same function equal_to uses.
    HASHFN = "<compiler::sexp::SExp as std::hash::Hash>::hash"
    EQFN = "<compiler::sexp::SExp as std::cmp::PartialEq>::eq"
    EQUAL_TO = "compiler::sexp::SExp::equal_to"
    hf, ef, qf = prog.fn(HASHFN), prog.fn(EQFN), prog.fn(EQUAL_TO)
    if hf is None or ef is None or qf is None:
        R.viol("R07.hash", "R07.hash|anchor-lost", "src/compiler/sexp.rs",
               "anchor lost: %s" % ", ".join(n for n, x in ((HASHFN, hf), (EQFN, ef), (EQUAL_TO, qf)) if x is None))
    else:
        R.check(any(callee_of(t) == EQUAL_TO for _, t in ef.calls()), "R07.hash", "R07.hash|eq-is-equal_to",
                "%s:%s" % (ef.file, ef.line), "auto: SExp == delegates to equal_to",
                "SExp's PartialEq no longer delegates to equal_to: the Hash rule below is checked against equal_to", fn=EQFN)
        ALLOWED = ("std::vec::Vec<u8>", "compiler::sexp::SExp", "std::rc::Rc<compiler::sexp::SExp>")
        nh = 0
        for bb, t in hf.calls():
            c = callee_of(t) or ""
            if re.search(r"hash::Hash\b(?!er)", c):
                nh += 1
                ty = (t.get("arg_tys") or ["?"])[0].lstrip("&").strip()
                if ty.startswith("mut "):
                    ty = ty[4:]
                R.check(ty in ALLOWED, "R07.hash", "R07.hash|feeds|%s" % ty, hf.loc(bb),
                        "auto: feeds the hasher a %s (child node or atom bytes)" % ty,
                        "<SExp as Hash>::hash feeds the hasher a %s: equal_to ignores everything but structure and atom "
                        "bytes, so two values that compare equal would hash differently (HashMap<SExp,_> lookups such as the "
                        "relabel swap table then miss)" % ty, fn=HASHFN)
            elif "std::hash::Hasher>::write" in c:
                nh += 1
                data = t["args"][1] if len(t["args"]) > 1 else None
                ty = (t.get("arg_tys") or ["?", "?"])[1] if len(t.get("arg_tys") or []) > 1 else "?"
                R.check(op_const(data) is not None or ty.lstrip("&").strip() == "[u8]", "R07.hash",
                        "R07.hash|writes|%s" % c.rsplit("::", 1)[-1], hf.loc(bb),
                        "auto: writes a constant tag or a byte slice", "<SExp as Hash>::hash writes a non-constant %s into the hasher "
                        "(only atom bytes and constant tags are equality-invariant)" % ty, fn=HASHFN)
        R.floor("R07.hash", "hasher feeds in <SExp as Hash>::hash", nh, 5)

        def normalisers(f):
            out = set()
            for fam in prog.family(f.path):
                for _, t in fam.calls():
                    c = callee_of(t) or ""
                    if c.startswith("util::") or "BigInt::to_" in c or "BigInt>::to_" in c or "::to_bytes_" in c or "to_signed_bytes" in c:
                        out.add(c)
            return out
        nh_, nq_ = normalisers(hf), normalisers(qf)
        R.check(nh_ == nq_ and len(nh_) > 0, "R07.hash", "R07.hash|integer-normaliser", "%s:%s" % (hf.file, hf.line),
                "auto: Hash and equal_to turn an integer into bytes with the same function: %s" % sorted(nh_),
                "Hash and equal_to normalise integers differently (hash: %s; equal_to: %s): an Integer and the Atom it equals "
                "would hash differently" % (sorted(nh_), sorted(nq_)), fn=HASHFN)
    return R.finalize()
