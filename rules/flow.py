"""Value flow ("derives-from") over MIR locals.

Flow-insensitive and field-insensitive by design: an edge u -> v means "the
value held (or pointed to) by local v may derive from local u".  Mutable
borrows / raw pointers alias their referent in both directions, and a call
makes its destination and every `&mut`/`*mut` argument derive from all
arguments.  The relation over-approximates real data flow, so rules use it
only where over-approximation is safe: a REQUIRED flow that is absent is a
definite finding; a FORBIDDEN flow that is present may be a false alarm and is
therefore always paired with a precise local test or a reviewed table line.

Closures: `Flow.link_closures(prog)` joins a function with the closures it
creates (captured operand k <-> upvar k of the body, closure return -> the
closure value, which call edges then carry to the combinator's destination)."""
from collections import defaultdict, deque

from mir import callee_of, op_const, op_place, rv_operands


def _is_mutptr_ty(ty):
    return ty.startswith("&mut ") or ty.startswith("*mut ") or ty.startswith("*const ")


class Flow:
    def __init__(self, fn, include_cleanup=False):
        self.fn = fn
        self.fwd = defaultdict(set)
        self.bwd = defaultdict(set)
        self.pbwd = defaultdict(set)        # pure data dependence (no alias / out-parameter edges)
        self.consts = defaultdict(list)     # local -> [const dicts assigned into it]
        self.call_defs = defaultdict(list)  # local -> [(bb, term)] calls whose dest is the local
        self.arg_uses = defaultdict(list)   # local -> [(bb, term, argidx)]
        self.agg_defs = defaultdict(list)   # local -> [(bb, idx, stmt)] aggregate definitions
        self._build(include_cleanup)

    def _expand(self, c):
        """A promoted constant stands for the named items it mentions (closures,
        statics, consts): expose them as synthetic constants."""
        out = [c]
        proms = None
        if c is not None and "promoted" in c:
            proms = self.fn.d.get("promoted_of", {}).get(c.get("uneval"))      # bodies produced by inline.inlined
            if proms is None and c.get("uneval") == self.fn.d.get("path"):
                proms = self.fn.d.get("promoted", [])
        if proms is not None:
            k = c["promoted"]
            if k < len(proms):
                for name in proms[k]:
                    out.append({"ty": c.get("ty", ""), "promoted_item": name, "closure": name, "static": name,
                                "uneval": name, "synthetic": True})
        return out

    def edge(self, u, v, pure=False):
        if u == v:
            return
        self.fwd[u].add(v)
        self.bwd[v].add(u)
        if pure:
            self.pbwd[v].add(u)

    def back_pure(self, locals_, stop=None):
        """Backward data dependence through assignments and call results only:
        no aliasing through `&mut`, no out-parameters.  Under-approximates
        flows through memory, so it is used where precision matters (which
        binding a value came from), never to prove absence of a flow."""
        seen = set(locals_)
        dq = deque(locals_)
        while dq:
            x = dq.popleft()
            if stop is not None and stop(x):
                continue
            for y in self.pbwd.get(x, ()):
                if y not in seen:
                    seen.add(y)
                    dq.append(y)
        return seen

    def node(self, pl):
        """Graph node of a place: its base local, except that in a closure body
        the captured variable k (`_1.k` / `(*_1).k`) is the pseudo-local -(k+1),
        so captures do not merge."""
        if self.is_closure and pl["l"] == 1:
            for e in pl["p"]:
                if e == "*":
                    continue
                if isinstance(e, dict) and "f" in e and str(e["f"]).isdigit():
                    return -(int(e["f"]) + 1)
                break
        return pl["l"]

    def upvar_node(self, k):
        return -(k + 1)

    def _build(self, include_cleanup):
        fn = self.fn
        self.is_closure = fn.kind == "Closure"
        for bb, b in enumerate(fn.blocks):
            if b.get("cleanup") and not include_cleanup:
                continue
            for i, s in enumerate(b["s"]):
                dest = self.node(s["pl"])
                rv = s["rv"]
                # index locals used in the destination projection do not carry value
                for o in rv_operands(rv):
                    p = op_place(o)
                    if p is not None:
                        self.edge(self.node(p), dest, pure=True)
                    else:
                        c = op_const(o)
                        if c is not None:
                            self.consts[dest].extend(self._expand(c))
                if rv["k"] == "agg":
                    self.agg_defs[dest].append((bb, i, s))
                k = rv["k"]
                alias = False
                if k == "ref" and rv.get("mut"):
                    alias = True
                elif k == "rawptr":
                    alias = True
                elif k in ("cast", "use") and dest >= 0 and _is_mutptr_ty(fn.local_ty(dest)) and not s["pl"]["p"]:
                    alias = True
                if alias:
                    for o in rv_operands(rv):
                        p = op_place(o)
                        if p is not None:
                            self.edge(dest, self.node(p))
            t = b["t"]
            if t["k"] == "call":
                dest = self.node(t["dest"])
                self.call_defs[dest].append((bb, t))
                arg_locals = []
                arg_consts = []
                for ai, a in enumerate(t["args"]):
                    p = op_place(a)
                    if p is not None:
                        arg_locals.append((ai, self.node(p)))
                        self.arg_uses[self.node(p)].append((bb, t, ai))
                    else:
                        c = op_const(a)
                        if c is not None:
                            arg_consts.extend(self._expand(c))
                for ai, l in arg_locals:
                    self.edge(l, dest, pure=True)
                self.consts[dest].extend(arg_consts)
                tys = t.get("arg_tys", [])
                for ai, l in arg_locals:
                    if ai < len(tys) and _is_mutptr_ty(tys[ai]):
                        for aj, l2 in arg_locals:
                            if aj != ai:
                                self.edge(l2, l)
                        self.consts[l].extend(arg_consts)

    def ty(self, node):
        """Type string of a node; captured variables report the type of the
        first local they are copied/borrowed into (or 'upvar')."""
        if node >= 0:
            return self.fn.local_ty(node)
        for v in sorted(self.fwd.get(node, ())):
            if v >= 0:
                return "upvar:" + self.fn.local_ty(v)
        return "upvar"

    # -- queries ---------------------------------------------------------------
    def back(self, locals_, stop=None):
        """All locals the given locals may derive from (inclusive)."""
        seen = set(locals_)
        dq = deque(locals_)
        while dq:
            x = dq.popleft()
            if stop is not None and stop(x):
                continue
            for y in self.bwd.get(x, ()):
                if y not in seen:
                    seen.add(y)
                    dq.append(y)
        return seen

    def forward(self, locals_, stop=None):
        seen = set(locals_)
        dq = deque(locals_)
        while dq:
            x = dq.popleft()
            if stop is not None and stop(x):
                continue
            for y in self.fwd.get(x, ()):
                if y not in seen:
                    seen.add(y)
                    dq.append(y)
        return seen

    def consts_into(self, locals_):
        out = []
        for l in self.back(locals_):
            out.extend(self.consts.get(l, []))
        return out

    def derives_from_local(self, target, source):
        return source in self.back([target])

    def derives_from_call(self, target, pred):
        """Does `target` derive from the result of a call whose callee path
        satisfies pred?  Returns the list of matching (bb, term)."""
        out = []
        for l in self.back([target]):
            for bb, t in self.call_defs.get(l, []):
                c = callee_of(t)
                if c is not None and (pred(c) or pred(t.get("callee") or "")):
                    out.append((bb, t))
        return out

    def operand_locals(self, op):
        p = op_place(op)
        return [p["l"]] if p is not None else []
