"""C20 — all operator tables agree with each other and with the evaluator.

Tables are harvested from the current sources on every run (HIR literal
tables, MIR SwitchInt dispatch, constants) and compared exhaustively."""
import json
import os

import runner
from defs import Defs, chase_consts, const_ints, const_bytes
from flow import Flow
from mir import callee_of, op_const, op_int, op_local, op_place, rv_operands
from report import Report

PID = "C20"
VERIF = os.path.dirname(os.path.dirname(os.path.abspath(__file__)))

KW_ITEM = "classic::clvm::KW_PAIRS"
PRIMS_FN = "compiler::prims::prims"
ORIG_OP = "<classic::clvm_tools::stages::stage_0::OriginalDialect as clvm_rs::dialect::Dialect>::op"
ORIG_PREFIX = "<classic::clvm_tools::stages::stage_0::OriginalDialect as clvm_rs::dialect::Dialect>::"
CHIA_OP = "<chia_dialect::ChiaDialect as dialect::Dialect>::op"
CHIA_PREFIX = "<chia_dialect::ChiaDialect as dialect::Dialect>::"
RUNNER = ("<classic::clvm_tools::stages::stage_0::DefaultProgramRunner as "
          "classic::clvm_tools::stages::stage_0::TRunProgram>::run_program")
LATEST = "classic::clvm::OPERATORS_LATEST_VERSION"

# Functions whose *name* states the keyword their integer literal must denote.
# (reviewed: each builds or recognises exactly that CLVM operator)
NAMED_LITERAL_FNS = {
    "compiler::prims::primquote": ("q", "builds (q . x)"),
    "compiler::prims::primcons": ("c", "builds (c a b)"),
    "compiler::prims::primapply": ("a", "builds (a prog env)"),
    "compiler::prims::primexc": ("x", "builds (x a b)"),
    "compiler::compiler::is_apply": ("a", "recognises the apply operator in emitted code"),
    "compiler::compiler::is_cons": ("c", "recognises the cons operator in emitted code"),
    "compiler::cldb_hierarchy::is_apply_op": ("a", "recognises apply in the debugger trace"),
}
# run_step's labelled constants: local name -> keyword
STEP_LABELS = {"apply_atom": "a", "if_atom": "i", "cons_atom": "c",
               "first_atom": "f", "rest_atom": "r"}

# keyword -> clvmr implementation function (reviewed once against clvmr 0.16.2's
# own documentation of the operator set; ties *names* to implementations)
KW_IMPL = json.load(open(os.path.join(VERIF, "tables", "c20_kw_impl.json")))


def lits(e, kind):
    """All literals of a kind inside a HIR expression tree."""
    out = []
    if isinstance(e, dict):
        if e.get("lit") == kind:
            out.append(e["v"])
        for k, v in e.items():
            if k != "lit":
                out.extend(lits(v, kind))
    elif isinstance(e, list):
        for x in e:
            out.extend(lits(x, kind))
    return out


def find_arrays(e):
    out = []
    if isinstance(e, dict):
        if "array" in e:
            out.append(e["array"])
        for v in e.values():
            out.extend(find_arrays(v))
    elif isinstance(e, list):
        for x in e:
            out.extend(find_arrays(x))
    return out


def find_paths(e):
    out = []
    if isinstance(e, dict):
        if "path" in e and isinstance(e["path"], str):
            out.append(e["path"])
        for v in e.values():
            out.extend(find_paths(v))
    elif isinstance(e, list):
        for x in e:
            out.extend(find_paths(x))
    return out


def be_int(b):
    return int.from_bytes(bytes(b), "big")


def harvest_kw(prog, R):
    h = prog.hir.get(KW_ITEM)
    if h is None:
        R.viol("R20.KW", "R20.KW|anchor-lost|KW_PAIRS", "classic::clvm",
               "anchor lost: const %s not found" % KW_ITEM)
        return []
    arrays = [a for a in find_arrays(h) if a and isinstance(a[0], dict) and "struct" in a[0]]
    if len(arrays) != 1:
        R.viol("R20.KW", "R20.KW|anchor-lost|shape", KW_ITEM,
               "anchor lost: keyword table is not a single array of struct literals")
        return []
    rows = []
    for i, ent in enumerate(arrays[0]):
        f = ent.get("fields", {})
        v = lits(f.get("v"), "int")
        n = lits(f.get("n"), "str")
        ver = lits(f.get("version"), "int")
        if len(n) != 1 or len(ver) != 1 or not v:
            R.viol("R20.KW", "R20.KW|row-shape|%d" % i, KW_ITEM,
                   "row %d of the keyword table is not a (bytes, name, version) literal" % i)
            continue
        rows.append({"bytes": bytes(v), "name": n[0], "version": ver[0]})
    return rows


def harvest_prims(prog, R):
    h = prog.hir.get(PRIMS_FN)
    if h is None:
        R.viol("R20.PRIMS", "R20.PRIMS|anchor-lost|prims", PRIMS_FN, "anchor lost: fn prims not found")
        return []
    arrays = [a for a in find_arrays(h) if a and isinstance(a[0], dict) and "tup" in a[0]]
    if not arrays:
        # table-driven rewrite: prims() maps over a const table item; follow the reference
        for ref in sorted(set(find_paths(h))):
            if ref in prog.hir and ref != PRIMS_FN:
                arrays += [a for a in find_arrays(prog.hir[ref]) if a and isinstance(a[0], dict) and "tup" in a[0]]
                if arrays:
                    R.info("prims() is built from const table %s" % ref)
    if len(arrays) != 1:
        R.viol("R20.PRIMS", "R20.PRIMS|anchor-lost|shape", PRIMS_FN,
               "anchor lost: prims() neither contains nor references exactly one array of (name, value) tuples")
        return []
    rows = []
    for i, ent in enumerate(arrays[0]):
        tup = ent["tup"]
        if len(tup) != 2:
            R.viol("R20.PRIMS", "R20.PRIMS|row-shape|%d" % i, PRIMS_FN, "row %d is not a pair" % i)
            continue
        names = lits(tup[0], "str") + [bytes(x).decode("latin1") for x in lits(tup[0], "bytes")]
        vals = lits(tup[1], "int")
        if len(names) != 1 or len(vals) != 1:
            R.viol("R20.PRIMS", "R20.PRIMS|row-shape|%d" % i, PRIMS_FN,
                   "row %d of prims() is not a (name literal, integer literal) pair" % i)
            continue
        rows.append({"name": names[0], "value": vals[0]})
    return rows


def switch_table(fn, R, rule, who):
    """opcode -> implementation for a Dialect::op body: the SwitchInt over the
    small-number opcode, each arm assigning a reified fn item (possibly under
    a flag guard).  Also returns the 4-byte table if there is one."""
    tables = []
    for bb, b in enumerate(fn.blocks):
        t = b["t"]
        if t["k"] != "switch" or len(t["arms"]) < 2:
            continue
        if not t["discr_ty"].startswith("u"):
            continue
        arms = {}
        for v, tgt in t["arms"]:
            arms[v] = arm_impl(fn, tgt)
        tables.append((bb, arms))
    return tables


def returns_none(fn, sw_bb, v):
    """Does the arm for value v of the switch at sw_bb assign `_0 = None` before anything else of substance?"""
    t = fn.blocks[sw_bb]["t"]
    tgt = dict((a, b) for a, b in t["arms"]).get(v, t["otherwise"])
    for _ in range(4):
        b = fn.blocks[tgt]
        for s in b["s"]:
            rv = s["rv"]
            if s["pl"]["l"] == 0 and rv["k"] == "agg" and rv.get("variant") == "None":
                return True
        if b["t"]["k"] == "goto":
            tgt = b["t"]["target"]
        else:
            break
    return False


def arm_impl(fn, bb, depth=0):
    """What an arm does: ('fn', path) | ('guard', mask, path) | ('unknown',) | ('other',)."""
    b = fn.blocks[bb]
    for s in b["s"]:
        rv = s["rv"]
        if rv["k"] == "cast" and "ReifyFnPointer" in rv["kind"]:
            c = op_const(rv["op"])
            if c and "fn" in c:
                return ("fn", c["fn"])
    t = b["t"]
    if t["k"] == "call":
        c = callee_of(t) or ""
        if c.endswith("unknown_operator"):
            return ("unknown",)
    if t["k"] == "switch" and depth == 0:
        # flag guard: BitAnd(flags, K) != 0
        mask = None
        ne = None
        for s in b["s"]:
            rv = s["rv"]
            if rv["k"] == "bin" and rv["op"] == "BitAnd":
                mask = op_int(rv["b"]) if op_int(rv["b"]) is not None else op_int(rv["a"])
            if rv["k"] == "bin" and rv["op"] in ("Ne", "Eq"):
                ne = rv["op"]
        if mask is not None and ne is not None:
            res = {}
            for v, tgt in t["arms"]:
                res[v] = arm_impl(fn, tgt, 1)
            res["otherwise"] = arm_impl(fn, t["otherwise"], 1)
            # Ne(x,0): switch value 0 means flag clear
            set_branch = res["otherwise"] if ne == "Ne" else res.get(0)
            clear_branch = res.get(0) if ne == "Ne" else res["otherwise"]
            if set_branch and set_branch[0] == "fn" and clear_branch and clear_branch[0] == "unknown":
                return ("guard", mask, set_branch[1])
    if t["k"] == "goto" and not b["s"] and depth < 3:
        return arm_impl(fn, t["target"], depth + 1)
    return ("other",)


def const_return(fn):
    """The integer a function returns when its body is `_0 = const N`."""
    vals = set()
    for _, _, s in fn.stmts():
        if s["pl"]["l"] == 0 and not s["pl"]["p"]:
            v = op_int(s["rv"].get("op")) if s["rv"]["k"] == "use" else None
            vals.add(v)
    if len(vals) == 1:
        return vals.pop()
    return None


def eval_const_operand(fn, defs, op):
    """Evaluate an operand built from integer constants with | & + (constant
    folding of flag expressions at mir-opt-level 0)."""
    v = op_int(op)
    if v is not None:
        return v
    l = op_local(op)
    if l is None:
        return None
    ds = defs.whole_defs(l)
    if len(ds) != 1 or ds[0][0] != "stmt":
        return None
    rv = ds[0][3]["rv"]
    if rv["k"] == "use":
        return eval_const_operand(fn, defs, rv["op"])
    if rv["k"] == "bin":
        a = eval_const_operand(fn, defs, rv["a"])
        b = eval_const_operand(fn, defs, rv["b"])
        if a is None or b is None:
            return None
        return {"BitOr": a | b, "BitAnd": a & b, "Add": a + b, "BitXor": a ^ b}.get(rv["op"])
    return None


def dialect_for_version(f, defs, vloc, v, accept=None):
    """(ctor path, flags) of the `Dialect::new` call reached when the version local has value v; "ambiguous" when paths for
    that value construct different dialects; None when none is constructed."""
    vcopies = {vloc}
    changed = True
    while changed:
        changed = False
        for _, _, s in f.stmts():
            if not s["pl"]["p"] and s["rv"]["k"] == "use" and op_local(s["rv"]["op"]) in vcopies and not op_place(s["rv"]["op"])["p"] \
                    and s["pl"]["l"] not in vcopies:
                vcopies.add(s["pl"]["l"])
                changed = True
    found = set()
    seen = set()
    todo = [(0, ())]
    while todo:
        bb, envt = todo.pop()
        if (bb, envt) in seen or len(seen) > 4000:
            continue
        seen.add((bb, envt))
        env = dict(envt)
        blk = f.blocks[bb]
        if blk.get("cleanup"):
            continue

        def val(op):
            c = op_int(op)
            if c is not None:
                return c
            l = op_local(op)
            if l is None or op_place(op)["p"]:
                return None
            if l in vcopies:
                return v
            return env.get(l)
        for s in blk["s"]:
            if s["pl"]["p"]:
                continue
            rv = s["rv"]
            x = None
            if rv["k"] == "use":
                x = val(rv["op"])
            elif rv["k"] == "bin":
                a, b = val(rv["a"]), val(rv["b"])
                if a is not None and b is not None:
                    x = {"Eq": int(a == b), "Ne": int(a != b), "Lt": int(a < b), "Le": int(a <= b), "Gt": int(a > b),
                         "Ge": int(a >= b), "BitOr": a | b, "BitAnd": a & b, "Add": a + b, "BitXor": a ^ b}.get(rv["op"])
            elif rv["k"] == "un" and rv["op"] == "Not":
                a = val(rv["a"])
                x = None if a is None else int(not a)
            if x is None:
                env.pop(s["pl"]["l"], None)
            else:
                env[s["pl"]["l"]] = x
        t = blk["t"]
        if t["k"] == "call" and (callee_of(t) or "").endswith("Dialect::new") and (accept is None or accept(bb, t)):
            fl_ = val(t["args"][0]) if t["args"] else None
            if fl_ is None and t["args"]:
                fl_ = eval_const_operand(f, defs, t["args"][0])
            found.add((callee_of(t), fl_))
        if t["k"] == "switch":
            d = val(t["discr"])
            if d is not None:
                tgt = dict((a, b2) for a, b2 in t["arms"]).get(d, t["otherwise"])
                todo.append((tgt, tuple(sorted(env.items()))))
                continue
        if t["k"] == "call":
            env.pop(t["dest"]["l"], None)
        for nx in f.succ(bb):
            todo.append((nx, tuple(sorted(env.items()))))
    if not found:
        return None
    if len(found) > 1:
        return "ambiguous"
    return next(iter(found))


def opcode_of_names(kw):
    return {r["name"] for r in kw}


def strip_crate(p):
    # `clvm_rs::more_ops::op_add` (as seen from chialisp) -> `more_ops::op_add`
    if p.startswith("clvm_rs::") or p.startswith("clvmr::"):
        return p.split("::", 1)[1]
    return p


def run(tier="quick", replay=None):
    R = Report(PID, tier,
               "Harvests every operator table of the tools from the current sources (HIR literal "
               "arrays, MIR SwitchInt dispatch of both dialects incl. clvmr 0.16.2 as built, "
               "version selectors, step-machine and helper constants) and checks them row by row: "
               "uniqueness (so name<->opcode maps are mutually inverse per version), versions only "
               "add, PRIMS = KW, every keyword of a version is implemented by the dialect the "
               "runner selects for that version, OriginalDialect arm-for-arm equal to ChiaDialect, "
               "step-machine / helper literals equal the opcode their name states. Exhaustive over "
               "the finite tables.",
               "HIR/MIR table extraction + exhaustive cross-comparison")
    prog, cprog, infos = runner.load("default", want_clvmr=True)
    R.facts_info = infos
    R.trusted = ["rustc nightly HIR/MIR construction", "clvmr 0.16.2 sources in the offline registry "
                 "are the consensus evaluator", "tables/c20_kw_impl.json (keyword -> clvmr function, reviewed)"]
    R.assumptions = ["operator arities/semantics are not decided here (C06 is not applicable)"]

    # ---------------- KW ----------------------------------------------------
    kw = harvest_kw(prog, R)
    R.floor("R20.KW", "rows", len(kw), 49, KW_ITEM)
    names = {}
    bytes_ = {}
    for r in kw:
        key = "R20.KW.unique|%s" % r["name"]
        dup_n = r["name"] in names
        dup_b = r["bytes"] in bytes_
        dup_what = ""
        if dup_n:
            dup_what = "the name of the row with bytes " + names[r["name"]]["bytes"].hex()
        elif dup_b:
            dup_what = "the bytes of the row named " + bytes_[r["bytes"]]["name"]
        R.check(not dup_n and not dup_b, "R20.KW.unique", key, KW_ITEM,
                "auto: name and byte string occur once",
                "keyword table row %r/%s duplicates %s — the per-version maps built by insert would "
                "overwrite and stop being mutually inverse" % (r["name"], r["bytes"].hex(), dup_what))
        names.setdefault(r["name"], r)
        bytes_.setdefault(r["bytes"], r)
        R.check(r["bytes"] and r["bytes"][0] != 0 or len(r["bytes"]) == 1, "R20.KW.canonical",
                "R20.KW.canonical|%s" % r["name"], KW_ITEM, "auto: minimal big-endian encoding",
                "opcode bytes of %r have a leading zero byte (never equal to a parsed atom)" % r["name"])
    maxver = max([r["version"] for r in kw], default=-1)
    latest = prog.consts.get(LATEST, {}).get("int")
    R.check(latest is not None and latest == maxver, "R20.latest", "R20.latest|const", LATEST,
            "auto: OPERATORS_LATEST_VERSION == max version in table (%s)" % maxver,
            "OPERATORS_LATEST_VERSION=%r but the keyword table's highest version is %r" % (latest, maxver))

    # ---------------- KWsel -------------------------------------------------
    sel_ok = 0
    for selname, direction in (("classic::clvm::keyword_from_atom", "from"),
                               ("classic::clvm::keyword_to_atom", "to")):
        f = prog.fn(selname)
        if f is None:
            R.viol("R20.KWsel", "R20.KWsel|anchor-lost|%s" % selname, selname, "anchor lost: selector missing")
            continue
        sw = [b["t"] for b in f.blocks if b["t"]["k"] == "switch"
              and op_local(b["t"]["discr"]) == 1]
        if len(sw) != 1:
            R.viol("R20.KWsel", "R20.KWsel|anchor-lost|%s|switch" % selname, selname,
                   "anchor lost: selector is not a single match on its version parameter")
            continue
        t = sw[0]
        arms = [(v, tgt) for v, tgt in t["arms"]] + [("otherwise", t["otherwise"])]
        explicit = sorted(v for v, _ in t["arms"])
        # version v (explicit arm) must select the map filtered with <= v (== for 0);
        # the default arm serves every version above the explicit ones => must be maxver
        R.check(explicit == list(range(0, maxver)), "R20.KWsel.arms", "R20.KWsel.arms|%s" % selname,
                selname, "auto: explicit arms %s + default cover versions 0..%d" % (explicit, maxver),
                "selector %s has explicit arms %s; with highest version %d it must match 0..%d "
                "explicitly and default to the last" % (selname, explicit, maxver, maxver - 1))
        for v, tgt in arms:
            want = maxver if v == "otherwise" else v
            static = None
            for bb in sorted(f.reachable(tgt, avoid=[x for _, x in arms if x != tgt])):
                for s in f.blocks[bb]["s"]:
                    for o in rv_operands(s["rv"]):
                        c = op_const(o)
                        if c and "static" in c:
                            static = c["static"]
                if static:
                    break
            key = "R20.KWsel|%s|%s" % (selname, v)
            if static is None:
                R.viol("R20.KWsel", key, selname, "arm %s of %s selects no static table" % (v, selname))
                continue
            init = prog.fn("<%s as std::ops::Deref>::deref::__static_ref_initialize" % static)
            ok, why = check_kw_init(prog, init, want, direction)
            R.check(ok, "R20.KWsel", key, selname,
                    "auto: version %s -> %s, built from KW_PAIRS with filter version<=%d, insert %s" % (
                        v, static, want, "(bytes->name)" if direction == "from" else "(name->bytes)"),
                    "selector %s arm %s -> %s: %s" % (selname, v, static, why))
            sel_ok += ok
    R.floor("R20.KWsel", "selector arms", sel_ok, 6)

    # ---------------- PRIMS = KW ----------------------------------------------
    prims = harvest_prims(prog, R)
    R.floor("R20.PRIMS", "rows", len(prims), 49, PRIMS_FN)
    kw_by_name = {r["name"]: r for r in kw}
    pr_by_name = {}
    for p in prims:
        key = "R20.PRIMS|%s" % p["name"]
        if p["name"] in pr_by_name:
            R.viol("R20.PRIMS", key + "|dup", PRIMS_FN, "prims() lists %r twice" % p["name"])
            continue
        pr_by_name[p["name"]] = p
        k = kw_by_name.get(p["name"])
        R.check(k is not None and be_int(k["bytes"]) == p["value"], "R20.PRIMS", key, PRIMS_FN,
                "auto: same opcode as keyword table",
                "modern compiler's prims() gives %r opcode %d but the assembler's keyword table says %s" % (
                    p["name"], p["value"], ("0x" + k["bytes"].hex()) if k else "nothing (unknown name)"))
    for r in kw:
        if r["name"] not in pr_by_name:
            R.viol("R20.PRIMS", "R20.PRIMS|missing|%s" % r["name"], PRIMS_FN,
                   "keyword %r (0x%s) of the assembler is missing from the modern compiler's prims()" % (
                       r["name"], r["bytes"].hex()))

    # ---------------- dialect dispatch tables ----------------------------------
    def dialect(progx, path, prefix, who, floor_small):
        f = progx.fn(path)
        if f is None:
            R.viol("R20." + who, "R20.%s|anchor-lost|op" % who, path, "anchor lost: %s::op not found" % who)
            return {}, {}, {}
        small, wide = {}, {}
        # the opcode match may live in a helper the method calls or passes on as a function item (`.and_then(lookup)`)
        cands = [f]
        for _, t in f.calls():
            g = progx.fn(callee_of(t) or "")
            if g is not None and g not in cands and g.kind in ("Fn", "AssocFn"):
                cands.append(g)
        for _, _, st in f.stmts():
            for o in rv_operands(st["rv"]):
                c = op_const(o)
                if c and "fn" in c and progx.fn(c["fn"]) is not None and progx.fn(c["fn"]) not in cands:
                    cands.append(progx.fn(c["fn"]))
        for _, t in f.calls():
            for a_ in t["args"]:
                c = op_const(a_)
                if c and "fn" in c and progx.fn(c["fn"]) is not None and progx.fn(c["fn"]) not in cands:
                    cands.append(progx.fn(c["fn"]))
        calls_unknown = any((callee_of(t) or "").endswith("unknown_operator") for _, t in f.calls())
        for g in cands:
            for bb, arms in switch_table(g, R, "R20." + who, who):
                if g is not f and calls_unknown:
                    # in a lookup helper "no entry" (None) stands for the caller's unknown_operator fall-back
                    arms = {v: (("unknown",) if a == ("other",) and returns_none(g, bb, v) else a) for v, a in arms.items()}
                if all(isinstance(v, int) and v < 256 for v in arms):
                    if len(arms) > len(small):
                        small = arms
                elif g is f or not wide:
                    wide = arms
        kws = {}
        for name in ("quote_kw", "apply_kw", "softfork_kw"):
            g = progx.fn(prefix + name)
            kws[name] = const_return(g) if g else None
        bad = {v: a for v, a in list(small.items()) + list(wide.items()) if a[0] == "other"}
        for v, a in sorted(bad.items()):
            R.viol("R20." + who, "R20.%s|arm-shape|%d" % (who, v), path,
                   "anchor lost: arm %d of %s::op is neither a function item, a flag-guarded function "
                   "item nor unknown_operator" % (v, who))
        R.floor("R20." + who, "small-opcode arms", len(small), floor_small, path)
        return small, wide, kws

    orig_small, orig_wide, orig_kws = dialect(prog, ORIG_OP, ORIG_PREFIX, "ORIG", 29)
    if cprog is None:
        R.viol("R20.CHIA", "R20.CHIA|anchor-lost|facts", "clvmr", "no facts for clvmr")
        return R.finalize()
    chia_small, chia_wide, chia_kws = dialect(cprog, CHIA_OP, CHIA_PREFIX, "CHIA", 44)
    R.floor("R20.CHIA", "4-byte arms", len(chia_wide), 2, CHIA_OP)
    R.counts.update({"KW": len(kw), "PRIMS": len(prims), "ORIG": len(orig_small),
                     "CHIA": len(chia_small), "CHIA4": len(chia_wide)})

    for nm in ("quote_kw", "apply_kw", "softfork_kw"):
        R.check(orig_kws.get(nm) is not None and orig_kws.get(nm) == chia_kws.get(nm),
                "R20.ORIG.kw", "R20.ORIG.kw|%s" % nm, ORIG_PREFIX + nm,
                "auto: equals ChiaDialect::%s = %s" % (nm, chia_kws.get(nm)),
                "OriginalDialect::%s returns %r, consensus ChiaDialect returns %r" % (
                    nm, orig_kws.get(nm), chia_kws.get(nm)))

    # ORIG subset of CHIA, arm for arm
    for v, a in sorted(orig_small.items()):
        if a[0] != "fn":
            continue
        c = chia_small.get(v)
        cimpl = c[1] if c and c[0] == "fn" else (c[2] if c and c[0] == "guard" else None)
        R.check(cimpl is not None and strip_crate(a[1]) == cimpl, "R20.ORIG", "R20.ORIG|%d" % v, ORIG_OP,
                "auto: same clvmr function as ChiaDialect arm %d (%s)" % (v, cimpl),
                "OriginalDialect dispatches opcode %d to %s but the consensus dialect dispatches it to %s" % (
                    v, a[1], cimpl))

    # ---------------- every implemented opcode has a name (opcode -> name is total) ------------
    kw_by_val = {}
    for r in kw:
        kw_by_val.setdefault(r["bytes"], r)
    for who, small, wide, maxv in (("ORIG", orig_small, {}, 0), ("CHIA", chia_small, chia_wide, maxver)):
        for v, a in sorted(list(small.items()) + list(wide.items())):
            if a[0] not in ("fn", "guard"):
                continue
            nbytes = 1 if v < 256 else 4
            row = kw_by_val.get(v.to_bytes(nbytes, "big"))
            lim = maxv if who == "CHIA" else 0
            R.check(row is not None and row["version"] <= lim, "R20.NAMED", "R20.NAMED|%s|%d" % (who, v),
                    ORIG_OP if who == "ORIG" else CHIA_OP,
                    "auto: implemented opcode %d is named %r (since version %s)" % (v, row["name"] if row else None, row["version"] if row else None),
                    "%s dispatches opcode %d to %s but the keyword table has %s: the disassembler cannot name an operator the "
                    "evaluator runs (opcode -> name is not total)" % (
                        who, v, a[-1], "no row for it" if row is None else "it only from version %d" % row["version"]))

    # ---------------- RUN: version -> dialect + flags ---------------------------
    run_sel = {}
    f = prog.fn(RUNNER)
    if f is None:
        R.viol("R20.RUN", "R20.RUN|anchor-lost|runner", RUNNER, "anchor lost: DefaultProgramRunner::run_program")
    else:
        defs = Defs(f)
        # the operator-set version: the usize produced by `.unwrap_or(DEFAULT)`
        vloc, dflt = None, None
        for bbx, tx in f.calls():
            if (callee_of(tx) or "").endswith("unwrap_or") and f.local_ty(tx["dest"]["l"]) == "usize":
                vloc, dflt = tx["dest"]["l"], op_int(tx["args"][1])
        if vloc is None:
            R.viol("R20.RUN", "R20.RUN|anchor-lost|switch", RUNNER,
                   "anchor lost: run_program no longer derives the operator-set version with unwrap_or(default)")
        else:
            # finite case split: for each version value follow the CFG, deciding every branch that depends only on the
            # version (match on it, or a comparison of it with a constant) and collecting the dialect constructed
            for key, v in [(i, i) for i in range(0, maxver + 1)] + [("otherwise", maxver + 5)]:
                res = dialect_for_version(f, defs, vloc, v)
                if res == "ambiguous":
                    R.viol("R20.RUN", "R20.RUN|anchor-lost|version-%s" % key, RUNNER,
                           "anchor lost: the dialect run_program builds for version %s could not be determined (more than one "
                           "Dialect::new on the paths for that version)" % key)
                    run_sel[key] = None
                else:
                    run_sel[key] = res
            R.check(dflt == maxver, "R20.RUN.default", "R20.RUN.default|unwrap_or", RUNNER,
                    "auto: absent option => version %s = latest" % dflt,
                    "run_program defaults to operator-set version %r, the latest is %r" % (dflt, maxver))
    R.floor("R20.RUN", "version arms", len([1 for x in run_sel.values() if x]), 3, RUNNER)

    # ---------------- TABLES: any other literal table that pairs opcodes with operator names ------------------
    # A const/static array whose rows carry an operator NAME (a keyword of the assembler table) next to integers is an
    # opcode table if, for most rows, the name's opcode is one of those integers; its remaining rows are mismatches.
    opcode_of_name = {r["name"]: be_int(r["bytes"]) for r in kw}
    ntab = 0
    for item, h in sorted(prog.hir.items()):
        if item in (KW_ITEM, PRIMS_FN):
            continue
        for arr in find_arrays(h):
            rows = []
            for row in arr:
                if not isinstance(row, (dict, list)):
                    continue
                strs = [x for x in lits(row, "str") if x in opcode_of_name]
                ints = set(lits(row, "int"))
                for sub in find_arrays(row):
                    iv = [x.get("v") for x in sub if isinstance(x, dict) and x.get("lit") == "int"]
                    if iv and len(iv) == len(sub):
                        ints.add(be_int(iv))
                if len(strs) == 1 and ints:
                    rows.append((strs[0], ints))
            if len(rows) < 4:
                continue
            good = [r for r in rows if opcode_of_name[r[0]] in r[1]]
            if len(good) * 5 < len(rows) * 4:
                continue           # not an opcode table (e.g. name -> arity)
            ntab += 1
            for name, ints in rows:
                R.check(opcode_of_name[name] in ints, "R20.TABLES", "R20.TABLES|%s|%s" % (item, name), item,
                        "auto: row for %r carries its opcode %d" % (name, opcode_of_name[name]),
                        "table %s pairs operator %r with %s, but its opcode in the keyword table is %d%s" % (
                            item, name, sorted(ints), opcode_of_name[name],
                            "".join("; %d is the opcode of %r" % (i, n2) for i in sorted(ints) for n2, o2 in opcode_of_name.items() if o2 == i and n2 != name)))
    R.counts["other opcode tables found"] = ntab

    # ---------------- OPS: the `run` tool's own evaluator picks its base dialect from the CURRENT version on every call
    OPS_OP = "<classic::clvm_tools::stages::stage_2::operators::CompilerOperatorsInternal as clvm_rs::dialect::Dialect>::op"
    g0 = prog.fn(OPS_OP)
    if g0 is None:
        R.viol("R20.OPS", "R20.OPS|anchor-lost|op", OPS_OP, "anchor lost: CompilerOperatorsInternal::op")
    else:
        import inline
        base_p = inline.default_pred(prog, g0)
        g = inline.inlined(prog, g0, pred=lambda h: base_p(h) and inline.same_module(g0, h) and len(h.blocks) <= 60, depth=2)
        gdefs = Defs(g)
        gv = None
        ctor_blocks = [bbx for bbx, tx in g.calls() if (callee_of(tx) or "").endswith("Dialect::new")]
        for bbx, tx in g.calls():
            # the version read that governs the choice: a usize produced by unwrap_or(default) that dominates the constructors
            if (callee_of(tx) or "").endswith("unwrap_or") and g.local_ty(tx["dest"]["l"]) == "usize" and gv is None \
                    and ctor_blocks and all(g.dominates(bbx, cb) for cb in ctor_blocks):
                gv = tx["dest"]["l"]
        sel = {}
        # only dialects that become the receiver of the delegating `Dialect::op` call count (helpers may build others)
        gfl = Flow(g)
        recv_src = set()
        for bbx, tx in g.calls():
            if (tx.get("callee") or "").endswith("dialect::Dialect::op") and tx["args"] and op_local(tx["args"][0]) is not None:
                recv_src |= gfl.back([op_local(tx["args"][0])])
        if gv is not None:
            for v in range(0, maxver + 1):
                sel[v] = dialect_for_version(g, gdefs, gv, v, accept=lambda bb, t: t["dest"]["l"] in recv_src)
        ok = gv is not None and all(isinstance(sel.get(v), tuple) for v in sel) and \
            sel.get(0, ("",))[0].endswith("OriginalDialect::new") and \
            all(sel[v][0].endswith("ChiaDialect::new") for v in sel if v > 0)
        R.check(ok, "R20.OPS", "R20.OPS|dialect-per-call", "%s:%s" % (g0.file, g0.line),
                "auto: each call of CompilerOperatorsInternal::op builds OriginalDialect for version 0 and ChiaDialect for later "
                "versions from the version read in that call",
                "CompilerOperatorsInternal::op does not construct its base dialect from the operator-set version read in the same "
                "call (per version: %s): a dialect cached across calls goes stale when set_operators_version changes the version, "
                "so operators of the selected version are reported unimplemented" % (
                    {v: (x[0].rsplit("::", 2)[-2] if isinstance(x, tuple) else x) for v, x in sel.items()} or "version not read"),
                fn=OPS_OP)

    no_unknown = cprog.consts.get("chia_dialect::NO_UNKNOWN_OPS", {}).get("int")
    keccak_flag = cprog.consts.get("chia_dialect::ENABLE_KECCAK_OPS_OUTSIDE_GUARD", {}).get("int")
    R.check(no_unknown is not None and keccak_flag is not None, "R20.RUN.flags", "R20.RUN.flags|consts",
            "clvmr::chia_dialect", "auto: NO_UNKNOWN_OPS=%s ENABLE_KECCAK_OPS_OUTSIDE_GUARD=%s" % (
                no_unknown, keccak_flag), "anchor lost: clvmr flag constants not found")

    def implemented(version, opcode_bytes):
        """Is the opcode dispatched by the dialect the runner builds for `version`?"""
        sel = run_sel.get(version, run_sel.get("otherwise"))
        if not sel:
            return False, "no dialect selected"
        ctor, flags = sel
        flags = flags or 0
        if ctor.endswith("OriginalDialect::new"):
            small, wide, kws = orig_small, orig_wide, orig_kws
        else:
            small, wide, kws = chia_small, chia_wide, chia_kws
        val = be_int(opcode_bytes)
        if len(opcode_bytes) == 1:
            if val in (kws.get("quote_kw"), kws.get("apply_kw"), kws.get("softfork_kw")):
                return True, "evaluator keyword"
            a = small.get(val)
            if a is None:
                return False, "no arm for opcode %d in %s" % (val, ctor)
            if a[0] == "fn":
                return True, a[1]
            if a[0] == "guard":
                if flags & a[1]:
                    return True, a[2]
                return False, "arm %d needs flag 0x%x, runner passes 0x%x" % (val, a[1], flags)
            return False, "arm %d is unknown_operator" % val
        a = wide.get(val)
        if a and a[0] == "fn":
            return True, a[1]
        return False, "no %d-byte arm for 0x%s in %s" % (len(opcode_bytes), opcode_bytes.hex(), ctor)

    run_complete = len([1 for x in run_sel.values() if x]) >= 3
    if not run_complete:
        R.info("R20.IMPL/NAME/RUN.guard skipped: the runner's version -> dialect selection could not be recovered (anchor lost above)")
    for r in (kw if run_complete else []):
        for ver in range(r["version"], maxver + 1):
            ok, how = implemented(ver, r["bytes"])
            R.check(ok, "R20.IMPL", "R20.IMPL|%s|v%d" % (r["name"], ver), RUNNER,
                    "auto: v%d runner dispatches 0x%s to %s" % (ver, r["bytes"].hex(), how),
                    "keyword %r (0x%s) is offered by operator-set version %d but the evaluator the "
                    "tools build for that version does not implement it: %s" % (
                        r["name"], r["bytes"].hex(), ver, how))
            if ok and how not in ("evaluator keyword",):
                want = KW_IMPL.get(r["name"])
                R.check(want is not None and strip_crate(how).split("::")[-1] == want, "R20.NAME",
                        "R20.NAME|%s|v%d" % (r["name"], ver), RUNNER,
                        "table: keyword -> clvmr function %s" % want,
                        "keyword %r is dispatched to %s; the reviewed keyword->implementation map says %s" % (
                            r["name"], how, want))
        # a keyword must NOT be silently available below its version in the name tables only;
        # (names absent from a lower version are simply not assembled) nothing to check.
    # keccak: runner passes the guard flag exactly for version >= 2
    for v, sel in sorted(run_sel.items(), key=lambda x: str(x[0])):
        if not sel or not run_complete:
            continue
        ver = maxver if v == "otherwise" else v
        ctor, flags = sel
        guarded = sorted({a[1] for a in chia_small.values() if a[0] == "guard"})
        for g in guarded:
            names_needing = [r["name"] for r in kw if len(r["bytes"]) == 1
                             and chia_small.get(be_int(r["bytes"]), ("",))[0] == "guard"
                             and chia_small[be_int(r["bytes"])][1] == g]
            need = any(kw_by_name[n]["version"] <= ver for n in names_needing)
            has = bool((flags or 0) & g) and not ctor.endswith("OriginalDialect::new")
            R.check(need == has, "R20.RUN.guard", "R20.RUN.guard|v%s|0x%x" % (v, g), RUNNER,
                    "auto: version %s %s flag 0x%x" % (v, "passes" if has else "omits", g),
                    "runner arm %s passes flags 0x%x: operators %s are %s in version %d but the flag "
                    "0x%x is %s" % (v, flags or 0, names_needing, "present" if need else "absent", ver, g,
                                    "set" if has else "not set"))
        R.check(flags is not None and no_unknown is not None and (flags & no_unknown), "R20.RUN.strict",
                "R20.RUN.strict|v%s" % v, RUNNER, "auto: NO_UNKNOWN_OPS passed",
                "runner arm %s does not pass NO_UNKNOWN_OPS (flags=%r): unknown opcodes would be "
                "treated as no-ops instead of errors" % (v, flags))

    # ---------------- constant versions elsewhere -------------------------------
    nver = 0
    for f in prog.fns.values():
        for bb, b in enumerate(f.blocks):
            if b.get("cleanup"):
                continue
            for s in b["s"]:
                rv = s["rv"]
                if rv["k"] == "agg" and rv.get("adt", "").endswith("stage_0::RunProgramOption") \
                        and "operators_version" in rv.get("fields", []):
                    op = rv["ops"][rv["fields"].index("operators_version")]
                    v = op_int(op)
                    if v is not None:
                        nver += 1
                        R.check(v == maxver, "R20.VER", "R20.VER|%s|RunProgramOption" % f.path, f.loc(bb),
                                "auto: constant operators_version == latest",
                                "%s builds RunProgramOption with constant operators_version %d; the "
                                "tools' default is %d" % (f.path, v, maxver), fn=f.path)
            t = b["t"]
            if t["k"] == "call":
                c = callee_of(t) or ""
                if c in ("classic::clvm::keyword_from_atom", "classic::clvm::keyword_to_atom"):
                    v = op_int(t["args"][0])
                    if v is not None:
                        nver += 1
                        R.check(v == maxver, "R20.VER", "R20.VER|%s|%s" % (f.path, c.split("::")[-1]),
                                f.loc(bb), "auto: constant version == latest",
                                "%s asks for keyword table version %d, latest is %d" % (f.path, v, maxver),
                                fn=f.path)
    R.floor("R20.VER", "constant version uses", nver, 4)

    # ---------------- STEP machine and literal helpers ---------------------------
    opcode_of = {r["name"]: be_int(r["bytes"]) for r in kw}
    f = prog.fn("compiler::clvm::run_step")
    if f is not None:
        # constants may live in a private classification helper (e.g. an enum built from the opcode): inline those
        import inline
        _f0 = f
        _bp = inline.default_pred(prog, _f0)
        _keep = {"compiler::clvm::choose_path", "compiler::clvm::apply_op", "compiler::clvm::translate_head", "compiler::clvm::eval_args",
                 "compiler::clvm::atom_value", "compiler::clvm::combine", "compiler::clvm::truthy", "compiler::clvm::run",
                 "compiler::clvm::convert_to_clvm_rs", "compiler::clvm::convert_from_clvm_rs", "compiler::clvm::generate_argument_refs"}
        f = inline.inlined(prog, _f0, pred=lambda g: _bp(g) and g.path not in _keep, depth=2)
    labelled = 0
    if f is None:
        R.viol("R20.STEP", "R20.STEP|anchor-lost|run_step", "compiler::clvm", "anchor lost: run_step")
    else:
        fl = Flow(f)
        step_consts = set()
        for l, d in enumerate(f.locals):
            n = d.get("n")
            if not n or d["ty"] != "num_bigint::BigInt":
                continue
            ints = set(const_ints(fl.consts_into([l])))
            if not ints:
                continue
            if n in STEP_LABELS:
                labelled += 1
                want = opcode_of.get(STEP_LABELS[n])
                R.check(ints == {want}, "R20.STEP", "R20.STEP|%s" % n, "compiler::clvm::run_step",
                        "auto: %s = %s = opcode of %r" % (n, sorted(ints), STEP_LABELS[n]),
                        "step machine constant %s is %s but operator %r has opcode %s" % (
                            n, sorted(ints), STEP_LABELS[n], want), fn=f.path)
            step_consts |= ints
        need = {opcode_of.get(k) for k in ("a", "i", "c", "f", "r")}
        R.check(need <= step_consts, "R20.STEP.set", "R20.STEP.set|consts", "compiler::clvm::run_step",
                "auto: step machine compares against %s" % sorted(need),
                "step machine's big-integer constants %s no longer cover the opcodes of a,i,c,f,r %s" % (
                    sorted(step_consts), sorted(x for x in need if x is not None)), fn=f.path)
    # the labelled comparison is by local NAME and therefore optional (a rename must not raise an alarm); the name-free
    # part is R20.STEP.set above and C06's R06.arity (opcode -> enforced argument count vs the consensus implementation)
    R.counts["STEP labelled constants (by local name, optional)"] = labelled

    nlit = 0
    for path, (kwname, why) in sorted(NAMED_LITERAL_FNS.items()):
        f = prog.fn(path)
        if f is None:
            R.info("literal helper %s not present (skipped)" % path)
            continue
        ints = set()
        bi_one = False
        for bb, t in f.calls():
            c = callee_of(t) or ""
            if c.endswith("bi_one"):
                bi_one = True
            for a in t["args"]:
                v = op_int(a)
                if v is not None:
                    ints.add(v)
                cc = op_const(a)
                if cc is not None:
                    ints |= set(const_ints([cc]))
        fl = Flow(f)
        for l in range(len(f.locals)):
            for c in fl.consts.get(l, []):
                if c.get("ty", "").lstrip("&") in ("u32", "i32", "u8", "u64", "usize", "i64"):
                    ints |= set(const_ints([c]))
        if bi_one:
            ints.add(1)
        ints -= {0} if len(ints) > 1 else set()
        nlit += 1
        want = opcode_of.get(kwname)
        R.check(want in ints and len(ints - {want, 0, 1} - ({1} if want == 1 else set())) == 0 or ints == {want},
                "R20.LIT", "R20.LIT|%s" % path, path,
                "auto: literal %s = opcode of %r (%s)" % (sorted(ints), kwname, why),
                "%s uses integer literal(s) %s but operator %r has opcode %s (%s)" % (
                    path, sorted(ints), kwname, want, why), fn=path)
    R.floor("R20.LIT", "named literal helpers", nlit, 7)

    # (name bytes, opcode) pairs passed to match_atom_to_prim
    npair = 0
    for f, bb, t in prog.call_sites(lambda c: c == "compiler::evaluate::match_atom_to_prim"):
        fl = Flow(f)
        opc = op_int(t["args"][1])
        nl = op_local(t["args"][0])
        cs = fl.consts_into([nl]) if nl is not None else []
        names_b = const_bytes(cs)
        if not names_b:
            ints = [int(c["int"]) for c in cs if "int" in c and c.get("ty") == "u8"]
            if ints:
                names_b = [bytes(ints)]
        npair += 1
        key = "R20.PAIR|%s" % f.path
        if opc is None or len(names_b) != 1:
            R.viol("R20.PAIR", key, f.loc(bb), "cannot read the (name, opcode) literal pair passed to "
                   "match_atom_to_prim in %s (name candidates %r, opcode %r)" % (f.path, names_b, opc), fn=f.path)
            continue
        nm = names_b[0].decode("latin1")
        R.check(opcode_of.get(nm) == opc, "R20.PAIR", key, f.loc(bb),
                "auto: (%r, %d) agrees with keyword table" % (nm, opc),
                "%s matches operator name %r against opcode %d, but the keyword table gives %r opcode %s" % (
                    f.path, nm, opc, nm, opcode_of.get(nm)), fn=f.path)
    R.floor("R20.PAIR", "match_atom_to_prim pairs", npair, 5)
    # ---------------- numeric heads vs operator names in the stepping evaluator ----------
    th = prog.fn("compiler::clvm::translate_head")
    if th is None:
        R.viol("R20.ALIAS", "R20.ALIAS|anchor-lost|translate_head", "compiler::clvm", "anchor lost: compiler::clvm::translate_head")
    else:
        fl = Flow(th)
        numeric_by_name = []
        name_lookups = 0
        for bb, t in th.calls():
            c = callee_of(t) or ""
            if c.endswith("HashMap::<K, V, S>::get") or c.endswith("HashMap::<K, V, S, A>::get"):
                name_lookups += 1
                kl = op_local(t["args"][1]) if len(t["args"]) > 1 else None
                if kl is not None and fl.derives_from_call(kl, lambda c: c.endswith("u8_from_number")):
                    numeric_by_name.append(th.loc(bb))
        R.floor("R20.ALIAS", "name lookups in translate_head", name_lookups, 1)
        collisions = [(a, b) for a in kw for b in kw if a is not b and a["bytes"] == b["name"].encode("latin1")]
        R.counts["opcode bytes that spell another operator's name"] = [
            "%s (0x%s) spells %r" % (a["name"], a["bytes"].hex(), b["name"]) for a, b in collisions]
        if numeric_by_name:
            for a, b in collisions:
                R.viol("R20.ALIAS", "R20.ALIAS|%s-read-as-%s" % (a["name"], b["name"]), numeric_by_name[0],
                       "the stepping evaluator resolves a NUMBER in head position through the name-keyed primitive map "
                       "(u8_from_number -> prim_map.get): opcode %d (%r) has the byte 0x%s = the name %r, so %r is executed as "
                       "%r (compile-time constant folding, macros and cldb compute wrong results)" % (
                           be_int(a["bytes"]), a["name"], a["bytes"].hex(), b["name"], a["name"], b["name"]), fn=th.path)
            if not collisions:
                R.ob("R20.ALIAS", "R20.ALIAS|no-collisions", numeric_by_name[0],
                     "auto: numeric heads are looked up by name, but no opcode's bytes spell another operator's name")
        else:
            R.ob("R20.ALIAS", "R20.ALIAS|numeric-heads-are-opcodes", "%s:%s" % (th.file, th.line),
                 "auto: translate_head resolves names for atoms only; a number in head position is never looked up in the "
                 "name table (%d opcode/name byte collisions exist in the keyword table and are harmless)" % len(collisions), fn=th.path)

    # ---------------- built-in prelude sources do not redefine operator names -----------------
    import re as _re
    allow = json.load(open(os.path.join(VERIF, "tables", "c20_prelude_shadow.json")))
    defs_re = _re.compile(r"\(\s*(defun-inline|defun|defmacro|defmac|defconstant|defconst)\s+([^\s()]+)")
    nprelude = 0
    seen_shadow = set()
    for f in prog.fns.values():
        if not (f.path.endswith("__static_ref_initialize") and ("compiler::dialect::" in f.path or "compiler::compiler::" in f.path)):
            continue
        texts = []
        for bb, i, s in f.stmts():
            for o in rv_operands(s["rv"]):
                c = op_const(o)
                if c and "str" in c and "(" in c["str"]:
                    texts.append(c["str"])
        for bb, tt in f.calls():
            for a in tt["args"]:
                c = op_const(a)
                if c and "str" in c and "(" in c["str"]:
                    texts.append(c["str"])
        for txt in texts:
            nprelude += 1
            for kind, name in defs_re.findall(txt):
                if name in opcode_of_names(kw):
                    key = "R20.SHADOW|%s|%s" % (f.path.split(" as ")[0].lstrip("<").rsplit("::", 1)[-1], name)
                    if key in seen_shadow:
                        continue
                    seen_shadow.add(key)
                    if key in allow:
                        R.ob("R20.SHADOW", key, "%s:%s" % (f.file, f.line), "table: %s" % allow[key]["reason"], fn=f.path)
                    else:
                        R.viol("R20.SHADOW", key, "%s:%s" % (f.file, f.line),
                               "the built-in source text of %s defines `%s` with %s: in programs using it the operator NAME %r no "
                               "longer denotes opcode 0x%s but a user-level function, unlike in the assembler and the other "
                               "dialects" % (f.path.split(" as ")[0].lstrip("<"), name, kind, name,
                                             [r for r in kw if r["name"] == name][0]["bytes"].hex()), fn=f.path)
    R.floor("R20.SHADOW", "built-in prelude texts scanned", nprelude, 6)
    if not seen_shadow:
        R.ob("R20.SHADOW", "R20.SHADOW|scan", "compiler::dialect / compiler::compiler", "auto: %d built-in source texts define no "
             "helper named like an operator" % nprelude)

    # ---------------- opcode byte strings are never truncated ------------------------
    fams = set()
    for f in prog.fns.values():
        touched = False
        for bb, t in f.calls():
            c = callee_of(t) or ""
            if c in ("classic::clvm::keyword_to_atom", "classic::clvm::keyword_from_atom") or "classic::clvm::KEYWORD_" in c:
                touched = True
        for pr in f.d.get("promoted", []):
            if any("KW_PAIRS" in x for x in pr):
                touched = True
        if touched:
            fams.add(f.root)
    R.floor("R20.TRUNC", "function families using the keyword tables", len(fams), 5)
    ntr = 0
    for r in sorted(fams):
        for f in prog.family(r):
            for bb, blk in enumerate(f.blocks):
                if blk.get("cleanup"):
                    continue
                t = blk["t"]
                hit = None
                if t["k"] == "call":
                    d = t.get("callee") or ""
                    g = t.get("gargs", [])
                    c = callee_of(t) or ""
                    if (d.endswith("ops::Index::index") and g and g[0] in ("std::vec::Vec<u8>", "[u8]")
                            and len(g) > 1 and g[1] == "usize"):
                        hit = "indexes a byte string"
                    elif c.rsplit("::", 1)[-1] in ("first", "last", "get", "split_first", "split_last") and \
                            ("[T]" in c or "slice" in c) and t.get("arg_tys") and "u8" in t["arg_tys"][0]:
                        hit = "takes one byte (%s) of a byte string" % c.rsplit("::", 1)[-1]
                elif t["k"] == "assert" and t["msg"] == "BoundsCheck":
                    lk = op_local(t["len"])
                    hit = None
                if hit:
                    ntr += 1
                    R.viol("R20.TRUNC", "R20.TRUNC|%s" % f.path, f.loc(bb),
                           "%s (a function that works with the keyword tables) %s: opcode byte strings are up to 4 bytes "
                           "long (secp256k1_verify = 13d61f00), taking single bytes of them makes a name denote a different "
                           "opcode in this component" % (f.path, hit), fn=f.path)
    R.ob("R20.TRUNC", "R20.TRUNC|scan", "keyword-table users", "auto: %d function families use the keyword tables; none takes "
         "single bytes of a byte string (%d hits)" % (len(fams), ntr))

    R.extra["tables"] = {
        "KW": [[r["bytes"].hex(), r["name"], r["version"]] for r in kw],
        "ORIG": {str(k): v for k, v in sorted(orig_small.items())},
        "CHIA": {str(k): v for k, v in sorted(chia_small.items())},
        "CHIA4": {str(k): v for k, v in sorted(chia_wide.items())},
        "RUN": {str(k): v for k, v in run_sel.items()},
    }
    return R.finalize()


def check_kw_init(prog, init, want_le, direction):
    if init is None:
        return False, "initialiser not found"
    # a table builder split out into a same-module helper is inlined (the version bound then arrives as the helper's argument)
    import inline
    init0 = init
    init = inline.inlined(prog, init0, pred=lambda g: g.parent == init0.parent or (g.parent or "").startswith("classic::clvm"), depth=2)
    all_prom = [p for ps in init.d.get("promoted_of", {}).values() for p in ps]
    if not any("classic::clvm::KW_PAIRS" in p for p in all_prom):
        # may reference the const directly
        found = False
        for _, _, s in init.stmts():
            for o in rv_operands(s["rv"]):
                c = op_const(o)
                if c and c.get("uneval") == "classic::clvm::KW_PAIRS":
                    found = True
        if not found:
            return False, "is not built from KW_PAIRS"
    # filter closure
    filt = None
    for bb, t in init.calls():
        if (callee_of(t) or "").endswith("Iterator::filter"):
            for a in t["args"]:
                l = op_local(a)
                if l is not None and "closure" in init.local_ty(l):
                    # find closure def
                    for _, _, s in init.stmts():
                        if s["pl"]["l"] == l and s["rv"]["k"] == "agg" and s["rv"].get("agg") == "closure":
                            filt = prog.fn(s["rv"]["closure"])
                c = op_const(a)
                if c and "closure" in c:
                    filt = prog.fn(c["closure"])
    if filt is None:
        return False, "no filter closure on the keyword table"
    pred = None
    for _, _, s in filt.stmts():
        if s["pl"]["l"] == 0 and s["rv"]["k"] == "bin":
            rv = s["rv"]
            k = op_int(rv["b"])
            if k is None:
                # bound captured by the closure: resolve the captured operand in the (inlined) initialiser to a constant
                lb = op_local(rv["b"])
                up = None
                for _hop in range(4):
                    nxt = None
                    for _, _, s3 in filt.stmts():
                        if lb is not None and s3["pl"]["l"] == lb and not s3["pl"]["p"] and s3["rv"]["k"] in ("use", "ref"):
                            p3 = op_place(s3["rv"]["op"]) if s3["rv"]["k"] == "use" else s3["rv"]["pl"]
                            if p3 and p3["l"] == 1:
                                fs = [e["f"] for e in p3["p"] if isinstance(e, dict) and "f" in e and str(e["f"]).isdigit()]
                                if fs:
                                    up = int(fs[0])
                            elif p3:
                                nxt = p3["l"]
                    if up is not None or nxt is None:
                        break
                    lb = nxt
                if up is not None:
                    ifl = Flow(init)
                    for _, _, s4 in init.stmts():
                        if s4["rv"]["k"] == "agg" and s4["rv"].get("agg") == "closure" and s4["rv"].get("closure") == filt.path \
                                and up < len(s4["rv"]["ops"]):
                            cl = op_local(s4["rv"]["ops"][up])
                            ints = set(const_ints(ifl.consts_into([cl]))) if cl is not None else set()
                            if len(ints) == 1:
                                k = next(iter(ints))
            # left side must be the .version field
            la = op_local(rv["a"])
            isver = False
            for _, _, s2 in filt.stmts():
                if s2["pl"]["l"] == la and s2["rv"]["k"] == "use":
                    p = op_place(s2["rv"]["op"])
                    if p and any(isinstance(e, dict) and e.get("f") == "version" for e in p["p"]):
                        isver = True
            if isver and k is not None:
                pred = (rv["op"], k)
    if pred is None:
        return False, "filter is not a comparison of .version with a constant"
    op, k = pred
    accept = {"Le": lambda v: v <= k, "Eq": lambda v: v == k, "Lt": lambda v: v < k,
              "Ge": lambda v: v >= k, "Gt": lambda v: v > k, "Ne": lambda v: v != k}.get(op)
    if accept is None:
        return False, "unsupported filter operator " + op
    for v in range(0, 8):
        if accept(v) != (v <= want_le):
            return False, "filter `version %s %d` does not select exactly the versions <= %d" % (op, k, want_le)
    # insert direction
    for bb, t in init.calls():
        if (callee_of(t) or "").endswith("HashMap::<K, V, S, A>::insert") or "::insert" in (callee_of(t) or ""):
            fl = Flow(init)
            def fields_into(op):
                l = op_local(op)
                out = set()
                if l is None:
                    return out
                for x in fl.back([l]):
                    for kind, *rest in []:
                        pass
                for bb2, i2, s2 in init.stmts():
                    if s2["pl"]["l"] in fl.back([l]):
                        for o in rv_operands(s2["rv"]):
                            p = op_place(o)
                            if p:
                                for e in p["p"]:
                                    if isinstance(e, dict) and e.get("f") in ("v", "n") and \
                                            e.get("of", "").endswith("KwAtomPair"):
                                        out.add(e["f"])
                return out
            kf = fields_into(t["args"][1])
            vf = fields_into(t["args"][2])
            want = ({"v"}, {"n"}) if direction == "from" else ({"n"}, {"v"})
            if (kf, vf) != want:
                return False, "insert(key from %s, value from %s) is not the %s direction" % (
                    sorted(kf), sorted(vf), "bytes->name" if direction == "from" else "name->bytes")
            return True, ""
    return False, "no insert into the map"
