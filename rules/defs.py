"""Def-use helpers over one function's MIR: definitions of locals, backward
constant chasing (temporaries at mir-opt-level 0 have a single definition)."""
from collections import defaultdict

from mir import (callee_of, op_const, op_int, op_local, op_place, rv_operands)


class Defs:
    def __init__(self, fn):
        self.fn = fn
        self.by_local = defaultdict(list)   # local -> [("stmt", bb, idx, stmt) | ("call", bb, term)]
        for bb, b in enumerate(fn.blocks):
            if b.get("cleanup"):
                continue
            for i, s in enumerate(b["s"]):
                self.by_local[s["pl"]["l"]].append(("stmt", bb, i, s))
            t = b["t"]
            if t["k"] == "call":
                self.by_local[t["dest"]["l"]].append(("call", bb, t))

    def whole_defs(self, l):
        """Definitions that assign the whole local (no projection)."""
        out = []
        for d in self.by_local.get(l, []):
            if d[0] == "stmt" and not d[3]["pl"]["p"]:
                out.append(d)
            elif d[0] == "call" and not d[2]["dest"]["p"]:
                out.append(d)
        return out

    def single_def(self, l):
        ds = self.by_local.get(l, [])
        if len(ds) == 1:
            return ds[0]
        return None


PASS_THROUGH_CALLS = (
    "::to_vec", "::into_vec", "::to_owned", "::clone", "::deref", "::borrow",
    "::as_ref", "::as_bytes", "::into", "::from", "::to_string", "::as_slice",
    "::box_new", "::new", "::write_box_via_move", "::unwrap", "::to_bigint",
    "::as_str", "::into_iter", "::iter", "::as_mut_slice", "::boxed::box_assume_init_into_vec_unsafe",
)


def chase_consts(fn, defs, op, depth=0, seen=None):
    """Backward chase of an operand to the set of constants it is built from,
    looking through moves, refs, casts, array/tuple aggregates and the
    value-preserving calls in PASS_THROUGH_CALLS.  Returns a list of const
    dicts (possibly empty) and a flag telling whether anything non-constant
    was met."""
    if seen is None:
        seen = set()
    consts = []
    opaque = False
    if depth > 12:
        return consts, True
    c = op_const(op)
    if c is not None:
        return [c], False
    l = op_local(op)
    if l is None:
        return consts, True
    if l in seen:
        return consts, False
    seen.add(l)
    if l <= fn.argc and l != 0:
        return consts, True
    ds = defs.by_local.get(l, [])
    if not ds:
        return consts, True
    for d in ds:
        if d[0] == "stmt":
            rv = d[3]["rv"]
            if rv["k"] in ("use", "ref", "cast", "agg", "repeat", "rawptr"):
                for o in rv_operands(rv):
                    cs, oq = chase_consts(fn, defs, o, depth + 1, seen)
                    consts.extend(cs)
                    opaque = opaque or oq
            else:
                opaque = True
        else:
            t = d[2]
            name = callee_of(t) or ""
            if any(name.endswith(sfx) or (sfx + "::") in name for sfx in PASS_THROUGH_CALLS):
                for a in t["args"]:
                    cs, oq = chase_consts(fn, defs, a, depth + 1, seen)
                    consts.extend(cs)
                    opaque = opaque or oq
            else:
                opaque = True
    return consts, opaque


def const_ints(consts):
    out = []
    for c in consts:
        if "int" in c:
            out.append(int(c["int"]))
        elif "mem" in c and c.get("ty", "").startswith("&") and len(c["mem"]) in (1, 2, 4, 8, 16):
            ty = c["ty"].lstrip("&")
            if ty and ty[0] in "ui" and ty[1:].isdigit() or ty in ("usize", "isize"):
                v = int.from_bytes(bytes(c["mem"]), "little", signed=ty.startswith("i"))
                out.append(v)
    return out


def const_bytes(consts):
    """Byte strings among constants (b"..", "..")."""
    out = []
    for c in consts:
        if "bytes" in c:
            out.append(bytes(c["bytes"]))
        elif "mem" in c and "[u8" in c.get("ty", ""):
            out.append(bytes(c["mem"]))
    return out
