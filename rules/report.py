"""Obligation bookkeeping, known-finding handling, evidence and violation
output shared by all property checks."""
import hashlib
import json
import os
import time

VERIF = os.path.dirname(os.path.dirname(os.path.abspath(__file__)))
EVID = os.environ.get("VERIF_EVID") or os.path.join(VERIF, "evidence")
KNOWN = os.path.join(VERIF, "known_findings.json")


def load_known(pid):
    if not os.path.exists(KNOWN):
        return {}
    out = {}
    for e in json.load(open(KNOWN)).get("findings", []):
        if e.get("property") == pid and e.get("status") == "known":
            out[e["key"]] = e
    return out


class Report:
    def __init__(self, pid, tier, explanation, technique):
        self.pid = pid
        self.tier = tier
        self.t0 = time.time()
        self.explanation = explanation
        self.technique = technique
        self.obligations = []   # dicts
        self.violations = []    # dicts
        self.infos = []
        self.floors = {}
        self.counts = {}
        self.functions = set()
        self.assumptions = []
        self.trusted = []
        self.facts_info = []
        self.stale_table = []
        self.extra = {}

    # -- recording -----------------------------------------------------------
    def ob(self, rule, key, site, how, fn=None, detail=None):
        """A discharged obligation."""
        self.obligations.append({"rule": rule, "key": key, "site": site,
                                 "discharged_by": how, **({"detail": detail} if detail else {})})
        if fn:
            self.functions.add(fn)

    def viol(self, rule, key, site, msg, fn=None, detail=None):
        """An obligation that could not be discharged."""
        if any(v["key"] == key for v in self.violations):
            return
        self.obligations.append({"rule": rule, "key": key, "site": site,
                                 "discharged_by": None, "msg": msg})
        self.violations.append({"rule": rule, "key": key, "site": site, "msg": msg,
                                **({"detail": detail} if detail else {})})
        if fn:
            self.functions.add(fn)

    def check(self, cond, rule, key, site, how, msg, fn=None, detail=None):
        if cond:
            self.ob(rule, key, site, how, fn, detail)
        else:
            self.viol(rule, key, site, msg, fn, detail)
        return cond

    def floor(self, rule, name, found, minimum, site="-"):
        """Fail closed when fewer instances than counted by hand are found."""
        self.floors["%s.%s" % (rule, name)] = {"found": found, "floor": minimum}
        if found < minimum:
            self.viol(rule, "%s|anchor-lost|%s" % (rule, name), site,
                      "anchor lost: %s found %d instance(s), floor is %d — the rule can no "
                      "longer be instantiated on this tree" % (name, found, minimum))
            return False
        return True

    def info(self, msg):
        self.infos.append(msg)

    # -- output --------------------------------------------------------------
    def finalize(self):
        known = load_known(self.pid)
        unlisted = []
        known_hit = []
        for v in self.violations:
            if v["key"] in known:
                known_hit.append((v, known[v["key"]]))
            else:
                unlisted.append(v)
        os.makedirs(EVID, exist_ok=True)
        vdir = os.path.join(EVID, "violations", self.pid)
        replay_paths = []
        if unlisted:
            os.makedirs(vdir, exist_ok=True)
        for v in unlisted:
            h = hashlib.sha256(v["key"].encode()).hexdigest()[:16]
            p = os.path.join(vdir, h + ".json")
            json.dump({"property": self.pid, **v}, open(p, "w"), indent=1)
            replay_paths.append(p)
        n_ob = len(self.obligations)
        n_dis = sum(1 for o in self.obligations if o["discharged_by"]) 
        by_how = {}
        for o in self.obligations:
            h = o["discharged_by"] or "UNDISCHARGED"
            h = h.split(":")[0]
            by_how[h] = by_how.get(h, 0) + 1
        distinct = len({(o["rule"], o["site"].split(":")[0] if o["site"] else "", o["key"])
                        for o in self.obligations})
        # samples: a spread over rules
        samples = []
        seen_rules = {}
        for o in self.obligations:
            c = seen_rules.get(o["rule"], 0)
            if c < 3:
                samples.append(o)
                seen_rules[o["rule"]] = c + 1
        samples = samples[:40]
        ev = {
            "property_id": self.pid,
            "tier": self.tier,
            "seed": int(os.environ.get("VERIF_SEED", "0") or 0),
            "level": "other",
            "coverage": {
                "explanation": self.explanation,
                "technique": self.technique,
                "obligations": n_ob,
                "discharged": n_dis,
                "discharged_by": by_how,
                "known_findings": len(known_hit),
                "evaluations": max(n_ob, 1),
                "distinct_nontrivial": distinct,
                "rule": "one evaluation = one proof obligation instantiated from the current "
                        "sources (site x rule); distinct = distinct (rule, key) pairs; all are "
                        "non-trivial in that each names a concrete construct of /repo",
                "samples": samples,
                "functions_analysed": sorted(self.functions)[:400],
                "floors": self.floors,
                "counts": self.counts,
                "facts": self.facts_info,
                "stale_table_entries": self.stale_table,
                "infos": self.infos[:200],
                "checker_cmd": "./check %s --tier %s" % (self.pid, self.tier),
                "trusted_base": self.trusted,
                "exhaustive": True,
                **self.extra,
            },
            "assumptions": self.assumptions,
            "wall_s": round(time.time() - self.t0, 2),
            "violations": len(unlisted),
        }
        json.dump(ev, open(os.path.join(EVID, self.pid + ".json"), "w"), indent=1)
        print("[%s] tier=%s obligations=%d discharged=%d known=%d violations=%d wall=%.1fs" % (
            self.pid, self.tier, n_ob, n_dis, len(known_hit), len(unlisted), ev["wall_s"]))
        for k, v in sorted(self.floors.items()):
            print("  floor %-40s found=%d floor=%d" % (k, v["found"], v["floor"]))
        for v, e in known_hit:
            print("KNOWN-FINDING: property=%s %s [%s] %s" % (self.pid, e.get("what", v["msg"]),
                                                             v["key"], v["site"]))
        for v, p in zip(unlisted, replay_paths):
            print("  %s: rule=%s key=%s\n      %s" % (v["site"], v["rule"], v["key"], v["msg"]))
            print("VIOLATION property=%s replay=%s" % (self.pid, p))
        return 1 if unlisted else 0
