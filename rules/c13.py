"""C13 — symbol tables describe the emitted program (hash provenance).

O1  add_defun: hash input, stored code, symbol key/value and argument entry all
    derive from the right parameters;
O2  codegen_: the code handed to add_defun is the result of the last
    per-function rewrite (post_codegen_function_optimize) of compile_program's
    output, passed on unchanged;
O3  finalize_env_: the code laid into the environment for a defun is that
    entry's `code`, through clone/borrow only;
O4  codegen: the reported symbols are copied from function_symbols after the
    last codegen_ call."""
import runner
from flow import Flow
from mir import callee_of, op_const, op_local, op_place, rv_operands
from report import Report

PID = "C13"
ADD_DEFUN = "compiler::comptypes::PrimaryCodegen::add_defun"
SHA = "compiler::clvm::sha256tree"
PASS_CALLS = ("clone", "cloned", "copied", "deref", "borrow", "as_ref", "to_owned", "to_vec", "get", "as_bytes", "to_string", "into", "from",
              "new", "hex", "decode", "fmt", "format", "must_use", "unwrap", "as_str", "deref_mut", "new_display", "new_debug")


def closure_of_arg(prog, f, a):
    """The closure body passed as call argument `a` of f (a non-capturing closure constant or a local closure value)."""
    from mir import op_const
    c = op_const(a) if a.get("k") == "const" else None
    cl = c.get("closure") if c else None
    al = op_local(a)
    if cl is None and al is not None:
        for _, _, st in f.stmts():
            if st["pl"]["l"] == al and st["rv"]["k"] == "agg" and st["rv"].get("agg") == "closure":
                cl = st["rv"]["closure"]
    return prog.fns.get(cl) if cl else None


def fields_read_into(f, fl, locals_):
    out = set()
    for bb, i, s in f.stmts():
        if fl.node(s["pl"]) in locals_:
            for o in rv_operands(s["rv"]):
                p = op_place(o)
                if p:
                    out |= {str(e["f"]) for e in p["p"] if isinstance(e, dict) and "f" in e}
    return out


def precise_sources(f, fl, l):
    """Backward pure slice of local l that is sensitive to TUPLE fields: reading `t.1` of a tuple aggregate continues only
    into the aggregate's second operand (so `match (a.get(k), b.get(k)) { (Some(x), _) => .., (None, Some(y)) => .. }` keeps
    the two lookups apart)."""
    tuple_defs = {}
    for _, _, s in f.stmts():
        if not s["pl"]["p"] and s["rv"]["k"] == "agg" and s["rv"].get("agg") == "tuple":
            tuple_defs.setdefault(s["pl"]["l"], []).append(s["rv"]["ops"])
    seen = set()
    todo = [l]
    while todo:
        x = todo.pop()
        if x in seen or x is None:
            continue
        seen.add(x)
        for _, _, s in f.stmts():
            if fl.node(s["pl"]) != x:
                continue
            for o in rv_operands(s["rv"]):
                p = op_place(o)
                if not p:
                    continue
                base = fl.node(p)
                flds = [e["f"] for e in p["p"] if isinstance(e, dict) and "f" in e]
                if base in tuple_defs and flds and str(flds[0]).isdigit() and len(tuple_defs[base]) == 1:
                    ops = tuple_defs[base][0]
                    i = int(flds[0])
                    if i < len(ops):
                        todo.append(op_local(ops[i]))
                        seen.add(base)      # the tuple itself counts as visited, its other fields do not
                        continue
                todo.append(base)
        for _, t in fl.call_defs.get(x, []):
            for a in t["args"]:
                todo.append(op_local(a))
    return seen


def must_pass_all(fn, start, targets, through):
    from paths import must_pass
    return must_pass(fn, start, targets, through)


def run(tier="quick", replay=None):
    R = Report(PID, tier,
               "Value-provenance obligations over MIR: the hash recorded for a function is computed from the very value "
               "(`value.code`) that is stored in the defun table and later laid into the environment unchanged, after the last "
               "per-function rewrite; the symbol key derives from that hash, the mapped name and argument list from the function's "
               "own name/args parameters; the reported symbol table is taken from function_symbols after the last codegen_ call. "
               "Decides these four structural obligations, not that whole-program passes leave bodies untouched nor the "
               "'every reachable function has an entry' clause.",
               "MIR value-flow (derives-from) obligations + combinator-chain analysis")
    prog, _, infos = runner.load("default")
    R.facts_info = infos
    R.trusted = ["rustc MIR construction", "value flow is local-level; REQUIRED flows that are absent are definite findings"]
    R.assumptions = ["whole-program optimiser passes after codegen_ leave quoted function bodies untouched (not decided)",
                     "'every non-inlined reachable function has an entry' is not decided"]

    # ---------------- O1 ---------------------------------------------------------------
    f = prog.fn(ADD_DEFUN)
    if f is None:
        R.viol("R13.O1", "R13.O1|anchor-lost|add_defun", ADD_DEFUN, "anchor lost: PrimaryCodegen::add_defun")
    else:
        fl = Flow(f)
        params = {f.local_name(i): i for i in range(1, f.argc + 1)}
        # positional fall-back: (self, name, args, value, left_env)
        p_name = params.get("name", 2)
        p_args = params.get("args", 3)
        p_value = params.get("value", 4)
        shas = [(bb, t) for bb, t in f.calls() if callee_of(t) == SHA]
        helper_hashes = []
        if not shas:
            # one level of helper: g(x) = sha256tree(x.code ...) called with an argument deriving from `value`
            for bb, t in f.calls():
                g = prog.fn(callee_of(t) or "")
                if g is None or not (t.get("callee_local") or t.get("target_local")):
                    continue
                gfl = Flow(g)
                for gb, gt in g.calls():
                    if callee_of(gt) == SHA:
                        gl = op_local(gt["args"][0])
                        gsrc = gfl.back_pure([gl]) if gl is not None else set()
                        gparams = [x for x in gsrc if 1 <= x <= g.argc]
                        if len(gparams) == 1 and "code" in fields_read_into(g, gfl, gsrc) and 0 in gfl.forward([gt["dest"]["l"]]):
                            helper_hashes.append((bb, t, gparams[0] - 1, g.path))
        R.floor("R13.O1", "sha256tree calls in add_defun", len(shas) + len(helper_hashes), 1, ADD_DEFUN)
        hash_locals = set()
        for bb, t, argi, gpath in helper_hashes:
            l = op_local(t["args"][argi])
            src = fl.back_pure([l]) if l is not None else set()
            ok = p_value in src and not ({p_name, p_args} & src)
            R.check(ok, "R13.O1", "R13.O1|hash-input", f.loc(bb),
                    "auto: %s(value) = sha256tree(<its argument>.code); the argument derives from parameter `value` only" % gpath,
                    "add_defun hashes (through %s) something other than the code it stores" % gpath, fn=f.path)
            hash_locals |= fl.forward([t["dest"]["l"]])
        for bb, t in shas:
            l = op_local(t["args"][0])
            src = fl.back_pure([l]) if l is not None else set()
            flds = fields_read_into(f, fl, src)
            ok = p_value in src and "code" in flds and not ({p_name, p_args} & src)
            R.check(ok, "R13.O1", "R13.O1|hash-input", f.loc(bb),
                    "auto: sha256tree(value.code) — input derives from parameter `value` through field `code` only",
                    "add_defun hashes something other than the code it stores (input derives from params %s, fields %s): symbol "
                    "keys would not be the tree hash of the emitted function" % (
                        sorted(x for x in src if 1 <= x <= f.argc), sorted(flds)), fn=f.path)
            hash_locals |= fl.forward([t["dest"]["l"]])
        inserts = [(bb, t) for bb, t in f.calls() if (callee_of(t) or "").endswith("::insert") and "HashMap" in (callee_of(t) or "")]
        n_def = n_sym = 0
        for bb, t in inserts:
            recv_fields = fields_read_into(f, fl, fl.back_pure([fl.node(op_place(t["args"][0]))])) if op_place(t["args"][0]) else set()
            kl, vl = op_local(t["args"][1]), op_local(t["args"][2])
            ksrc = fl.back_pure([kl]) if kl is not None else set()
            vsrc = fl.back_pure([vl]) if vl is not None else set()
            if "defuns" in recv_fields:
                n_def += 1
                ok = p_value in vsrc and p_name in ksrc and p_value not in ksrc
                R.check(ok, "R13.O1", "R13.O1|defuns-insert", f.loc(bb),
                        "auto: defuns[name] = value (the same parameter whose code is hashed)",
                        "add_defun stores a different value in the defun table than the one it hashes", fn=f.path)
            elif "function_symbols" in recv_fields:
                n_sym += 1
                key_from_hash = bool(ksrc & hash_locals) or any(callee_of(tt) == SHA for x in ksrc for _, tt in fl.call_defs.get(x, []))
                from defs import const_bytes
                kconsts = [c.get("str") for x in ksrc for c in fl.consts.get(x, []) if "str" in c] + \
                          [b.decode("latin1") for x in ksrc for b in const_bytes(fl.consts.get(x, []))]
                # named constants (`const ARGUMENTS_SUFFIX: &str = "_arguments"`) mentioned directly or through a promoted
                kconsts += [prog.consts[c.get("uneval")]["str"] for x in ksrc for c in fl.consts.get(x, [])
                            if c.get("uneval") in prog.consts and "str" in prog.consts[c.get("uneval")]]
                suffix = "".join(k for k in kconsts if k)
                if "_arguments" in suffix:
                    ok = key_from_hash and p_args in vsrc and p_name not in vsrc
                    R.check(ok, "R13.O1", "R13.O1|symbols-arguments", f.loc(bb),
                            "auto: function_symbols[hash + \"_arguments\"] derives from parameter `args`",
                            "the `_arguments` symbol entry does not record this function's argument list under its hash", fn=f.path)
                elif "_left_env" in suffix:
                    R.check(key_from_hash, "R13.O1", "R13.O1|symbols-left-env", f.loc(bb),
                            "auto: function_symbols[hash + \"_left_env\"] keyed by the hash",
                            "the `_left_env` symbol entry is not keyed by the function's hash", fn=f.path)
                else:
                    ok = key_from_hash and p_name in vsrc and p_args not in vsrc and p_value not in vsrc
                    R.check(ok, "R13.O1", "R13.O1|symbols-name", f.loc(bb),
                            "auto: function_symbols[hash] = name — key derives from sha256tree(value.code), value from parameter `name`",
                            "the symbol entry maps the wrong things: key from hash=%s, value from name=%s" % (key_from_hash, p_name in vsrc),
                            fn=f.path)
        # all symbol entries of one function are written with the same discipline (plain insert: last definition wins
        # for name, arguments and left_env alike); an entry()/or_insert on one of them de-synchronises the three
        entry_calls = [(bb, t) for bb, t in f.calls() if (callee_of(t) or "").rsplit("::", 1)[-1] in
                       ("entry", "or_insert", "or_insert_with", "or_default", "try_insert", "and_modify")
                       and ("HashMap" in (callee_of(t) or "") or "hash_map::Entry" in (callee_of(t) or "") or "hash::map" in (callee_of(t) or ""))]
        R.check(not entry_calls, "R13.O1", "R13.O1|uniform-discipline", "%s:%s" % (f.file, f.line),
                "auto: every table entry in add_defun is written with insert (no entry()/or_insert mix)",
                "add_defun writes some table entries with %s and others with insert: when two functions generate identical code "
                "the name kept is the first one's while the argument list recorded is the last one's" % sorted(
                    {(callee_of(t) or "").rsplit("::", 1)[-1] for _, t in entry_calls}), fn=f.path)
        has_name = any(o["key"] == "R13.O1|symbols-name" for o in R.obligations)
        R.check(has_name, "R13.O1", "R13.O1|symbols-name-present", "%s:%s" % (f.file, f.line),
                "auto: the hash -> name entry is written",
                "add_defun no longer writes the hash -> name symbol entry with insert", fn=f.path)
        R.floor("R13.O1", "defuns inserts", n_def, 1, ADD_DEFUN)
        R.floor("R13.O1", "function_symbols inserts", n_sym, 2, ADD_DEFUN)

    # ---------------- O2 -----------------------------------------------------------------
    sites = [(g, bb, t) for g, bb, t in prog.call_sites(lambda c: c == ADD_DEFUN)]
    R.floor("R13.O2", "add_defun call sites", len(sites), 1)
    for g, bb, t in sites:
        gfl = Flow(g)
        key = "R13.O2|%s" % g.path
        # the DefunCall aggregate passed as `value`
        vl = op_local(t["args"][3]) if len(t["args"]) > 3 else None
        code_src = set()
        for x in gfl.back_pure([vl]) if vl is not None else []:
            for b2, i2, s2 in gfl.agg_defs.get(x, []):
                if s2["rv"].get("adt", "").endswith("DefunCall"):
                    op = s2["rv"]["ops"][s2["rv"]["fields"].index("code")]
                    ol = op_place(op)
                    if ol is not None:
                        code_src = gfl.back_pure([gfl.node(ol)])
        if not code_src:
            R.viol("R13.O2", key, g.loc(bb), "cannot find the DefunCall{code} value passed to add_defun in %s" % g.path, fn=g.path)
            continue
        if g.kind == "Closure" and g.parent in prog.fns:
            from_param = 2 in code_src      # closure(_1 = env, _2 = the chain's value)
            chain = chain_before(prog, g)
            names = [c["calls"] for c in chain]
            # position of post_codegen_function_optimize and compile_program in the chain (walked backwards)
            idx_post = next((i for i, c in enumerate(chain) if "post_codegen_function_optimize" in c["calls"]), None)
            has_compile = any("compile_program" in c["calls"] for c in chain)
            between_ok = True
            bad = []
            if idx_post is not None:
                for c in chain[:idx_post]:
                    extra = [x for x in c["calls"] if x not in ("fail_if_present",) and x not in PASS_CALLS]
                    if extra or not c["returns_param"]:
                        between_ok = False
                        bad.append("%s calls %s" % (c["closure"], extra))
            ok = from_param and idx_post is not None and has_compile and between_ok
            R.check(ok, "R13.O2", key, g.loc(bb),
                    "auto: DefunCall.code is the chain value: compile_program -> post_codegen_function_optimize -> "
                    "%d pass-through step(s) -> add_defun" % (idx_post or 0),
                    "the code handed to add_defun in %s is not the unchanged result of the last per-function rewrite: code from "
                    "chain value=%s, post_codegen_function_optimize in chain=%s, compile_program in chain=%s, later steps rewrite "
                    "it: %s (hashing before the optimiser makes every symbol key stale)" % (
                        g.path, from_param, idx_post is not None, has_compile, bad), fn=g.path)
        else:
            post = gfl.derives_from_call(min(code_src), lambda c: c.endswith("post_codegen_function_optimize")) if code_src else []
            any_post = any(callee_of(tt2).endswith("post_codegen_function_optimize") for x in code_src for _, tt2 in gfl.call_defs.get(x, []))
            R.check(any_post, "R13.O2", key, g.loc(bb),
                    "auto: DefunCall.code derives from post_codegen_function_optimize's result",
                    "the code handed to add_defun in %s does not derive from the last per-function rewrite" % g.path, fn=g.path)

    # ---------------- O3 ---------------------------------------------------------------------
    fe = prog.fn("compiler::codegen::finalize_env_")
    if fe is None:
        R.viol("R13.O3", "R13.O3|anchor-lost|finalize_env_", "compiler::codegen", "anchor lost: finalize_env_")
    else:
        # private helpers of the module (e.g. a split-out "what does this name stand for" lookup) are inlined
        import inline
        _fe0 = fe
        _bp = inline.default_pred(prog, _fe0)
        # ... and so are small accessor methods of the code generator state (`c.defun_code(name)` for `c.defuns.get(name)`)
        _acc = lambda g: g.kind in ("Fn", "AssocFn") and g.path.startswith("compiler::comptypes::PrimaryCodegen::") and len(g.blocks) <= 40
        fe = inline.inlined(prog, _fe0, pred=lambda g: g.path != _fe0.path and ((_bp(g) and inline.same_module(_fe0, g) and len(g.blocks) <= 80) or _acc(g)), depth=2)
        fl = Flow(fe)
        gets = []
        other_gets = []
        for bb, t in fe.calls():
            if (callee_of(t) or "").endswith("::get") and "HashMap" in (callee_of(t) or ""):
                flds = fields_read_into(fe, fl, fl.back_pure([fl.node(op_place(t["args"][0]))])) if op_place(t["args"][0]) else set()
                if "defuns" in flds:
                    gets.append((bb, t))
                elif flds & {"tabled_constants", "constants", "inlines", "macros"}:
                    other_gets.append((bb, t, sorted(flds)))
        R.floor("R13.O3", "defuns lookups in finalize_env_", len(gets), 1, fe.path)
        # a name that is a function resolves to the function's code: no other table is consulted before `defuns`
        for obb, ot, oflds in other_gets:
            shadow = gets and not any(fe.dominates(gb, obb) for gb, _ in gets)
            R.check(not shadow, "R13.O3", "R13.O3|defuns-consulted-first", fe.loc(obb),
                    "auto: the lookup in %s comes after the defuns lookup" % oflds,
                    "finalize_env_ consults %s before the function table: a constant (or other entry) of the same name takes the "
                    "function's slot in the environment while the symbol table still names the function's hash" % oflds, fn=fe.path)
        for bb, t in gets:
            # Ok(..) assignments whose payload derives from this lookup
            found = False
            for b2, i2, s2 in fe.stmts():
                rv = s2["rv"]
                if s2["pl"]["l"] == 0 and rv["k"] == "agg" and rv.get("variant") == "Ok":
                    l = op_local(rv["ops"][0])
                    src = fl.back_pure([l]) if l is not None else set()
                    if t["dest"]["l"] not in src:
                        continue
                    if t["dest"]["l"] not in precise_sources(fe, fl, l):
                        continue        # reached only through another field of a tuple of lookups
                    found = True
                    flds = fields_read_into(fe, fl, src - fl.back_pure([t["dest"]["l"]]) | {l})
                    calls = sorted({(callee_of(tt) or "?").rsplit("::", 1)[-1] for x in src - fl.back_pure([op_local(t["args"][0]) or -99])
                                    for _, tt in fl.call_defs.get(x, [])})
                    rewrites = [c for c in calls if c not in PASS_CALLS]
                    extra_fields = set()
                    if any(c in ("map", "and_then") for c in rewrites):
                        # `defuns.get(name).map(|d| d.code.clone())`: a combinator whose closure only projects/clones
                        pure_map = True
                        for x in src:
                            for _, tt in fl.call_defs.get(x, []):
                                if (callee_of(tt) or "?").rsplit("::", 1)[-1] not in ("map", "and_then"):
                                    continue
                                for a in tt["args"][1:]:
                                    g = closure_of_arg(prog, fe, a)
                                    if g is None:
                                        pure_map = False
                                        continue
                                    gcalls = {(callee_of(t3) or "?").rsplit("::", 1)[-1] for _, t3 in g.calls()}
                                    if [c for c in gcalls if c not in PASS_CALLS]:
                                        pure_map = False
                                    gfl2 = Flow(g)
                                    extra_fields |= fields_read_into(g, gfl2, gfl2.back_pure([0]))
                        if pure_map:
                            rewrites = [c for c in rewrites if c not in ("map", "and_then")]
                    ok = "code" in (fields_read_into(fe, fl, src) | extra_fields) and not rewrites
                    R.check(ok, "R13.O3", "R13.O3|defun-code-unchanged", fe.loc(b2),
                            "auto: env entry for a defun = defuns[name].code through %s only" % (calls or ["moves"]),
                            "finalize_env_ lays out something other than the stored (hashed) code for a defun: calls on the way %s" % rewrites,
                            fn=fe.path)
            if not found:
                R.viol("R13.O3", "R13.O3|defun-code-unchanged", fe.loc(bb),
                       "finalize_env_ looks a defun up but does not return its code", fn=fe.path)

    # ---------------- O5 nested compilations never write the reported symbol table ----------------
    n5 = 0
    for g, bb, t in prog.call_sites(lambda c: "CompileContextWrapper" in c and c.endswith("::new")
                                    or c == "compiler::comptypes::CompilerOpts::compile_program"):
        c = callee_of(t)
        idx = 2 if "Wrapper" in c else len(t["args"]) - 1
        gfl = Flow(g)
        l = op_local(t["args"][idx]) if idx < len(t["args"]) else None
        src = gfl.back_pure([gfl.node(op_place(t["args"][idx]))]) if l is not None else set()
        fresh = any((callee_of(t2) or "").endswith("HashMap::<K, V>::new") for x in src for _, t2 in gfl.call_defs.get(x, []))
        from_outside = [x for x in src if (1 <= x <= g.argc) or x < 0]
        passthrough = g.root.endswith("::compile_program") or g.root.endswith("::override_compile_program") or \
            g.root == "compiler::compiler::compile_file"
        n5 += 1
        key = "R13.O5|%s|%s" % (g.path, c.rsplit("::", 1)[-1] if "Wrapper" not in c else "context")
        k2, i2 = key, 2
        while any(o["key"] == k2 for o in R.obligations):
            k2 = "%s#%d" % (key, i2)
            i2 += 1
        if passthrough:
            R.ob("R13.O5", k2, g.loc(bb), "auto: top-level chain (%s hands on its caller's symbol table)" % g.root.rsplit("::", 1)[-1], fn=g.path)
        else:
            R.check(fresh and not from_outside, "R13.O5", k2, g.loc(bb),
                    "auto: nested compilation writes its symbols into a fresh throw-away table",
                    "%s runs a nested compilation with the ENCLOSING compilation's symbol table (derived from %s): the inner "
                    "codegen replaces the table wholesale (clone_from), so the outer functions' entries disappear or are mixed with "
                    "the inner program's" % (g.path, "a parameter/captured context" if from_outside else "a non-fresh value"), fn=g.path)
    R.floor("R13.O5", "nested/top-level compile contexts", n5, 10)

    # ---------------- O6 synthesised functions record the arguments their code really takes ---------
    def value_root(g, gfl, op):
        """Follow moves and clone() back to the local (or field place) a value was copied from."""
        p = op_place(op)
        if p is None:
            return None
        cur = (gfl.node(p), tuple(str(e["f"]) for e in p["p"] if isinstance(e, dict) and "f" in e))
        seen = set()
        while cur not in seen:
            seen.add(cur)
            l, flds = cur
            if flds or l is None or l < 0 or (1 <= l <= g.argc) or g.local_name(l):
                return cur
            nxt = None
            for b2, i2, s2 in g.stmts():
                if gfl.node(s2["pl"]) == l and not s2["pl"]["p"] and s2["rv"]["k"] in ("use", "ref"):
                    q = op_place(rv_operands(s2["rv"])[0]) if rv_operands(s2["rv"]) else None
                    if q is not None:
                        nxt = (gfl.node(q), tuple(str(e["f"]) for e in q["p"] if isinstance(e, dict) and "f" in e))
            for b2, t2 in gfl.call_defs.get(l, []):
                if (callee_of(t2) or "").rsplit("::", 1)[-1] in ("clone", "deref", "borrow", "as_ref") and t2["args"]:
                    q = op_place(t2["args"][0])
                    if q is not None:
                        nxt = (gfl.node(q), tuple(str(e["f"]) for e in q["p"] if isinstance(e, dict) and "f" in e))
            if nxt is None:
                return cur
            cur = nxt
        return cur
    n6 = 0
    for g in sorted(prog.fns.values(), key=lambda f: f.path):
        if g.path.endswith("as std::clone::Clone>::clone"):
            continue
        gfl = None
        for bb, i, s in g.stmts():
            rv = s["rv"]
            if not (rv["k"] == "agg" and rv.get("adt", "").endswith("comptypes::DefunData")):
                continue
            gfl = gfl or Flow(g)
            ops = dict(zip(rv["fields"], rv["ops"]))
            sl = op_local(ops["synthetic"])
            syn = [s2["rv"].get("variant") for x in (gfl.back_pure([sl]) if sl is not None else [])
                   for _, _, s2 in gfl.agg_defs.get(x, []) if s2["rv"].get("adt", "").endswith("option::Option")]
            if "Some" not in syn:
                continue      # user-written or copied definitions keep their own orig_args
            n6 += 1
            ra, ro = value_root(g, gfl, ops["args"]), value_root(g, gfl, ops["orig_args"])
            R.check(ra is not None and ra == ro, "R13.O6", "R13.O6|%s|synthetic-args" % g.path, "%s:%s" % (g.file, s.get("line")),
                    "auto: a compiler-synthesised function records as `orig_args` the very argument list (`args`) its code takes",
                    "%s synthesises a function whose recorded argument list (orig_args, shown as <hash>_arguments) is not the list "
                    "its code takes (args): roots %s vs %s — e.g. a lambda's capture tuple would be missing from the symbol entry" % (
                        g.path, ro, ra), fn=g.path)
    R.floor("R13.O6", "synthesised function definitions", n6, 2)

    # ---------------- O7 source-location entries never replace function entries --------------------
    btm = prog.fn("compiler::debug::build_table_mut")
    overwriting = False
    if btm is not None:
        for g in prog.family("compiler::debug::build_table_mut"):
            for bb, t in g.calls():
                c = callee_of(t) or ""
                if c.endswith("HashMap::<K, V, S, A>::insert") or c.endswith("HashMap::<K, V, S>::insert"):
                    overwriting = True
    n7 = 0
    for g, bb, t in prog.call_sites(lambda c: c == "compiler::debug::build_symbol_table_mut"):
        n7 += 1
        gfl = Flow(g)
        l = op_local(t["args"][0])
        src = gfl.back([l]) if l is not None else set()
        fresh = any((callee_of(t2) or "").endswith("HashMap::<K, V>::new") for x in gfl.back_pure([l]) for _, t2 in gfl.call_defs.get(x, [])) \
            if l is not None else False
        from_param = [x for x in (gfl.back_pure([l]) if l is not None else []) if 1 <= x <= g.argc]
        ok = (not overwriting) or (fresh and not from_param)
        R.check(ok, "R13.O7", "R13.O7|%s|locations-do-not-overwrite" % g.path, g.loc(bb),
                "auto: source-location entries are built in a fresh map (and merged without overwriting)" if overwriting else
                "auto: the table builder never overwrites existing entries",
                "%s adds hash -> source-location entries directly into the table that holds the hash -> function-name entries, and "
                "the builder overwrites entries for atoms: a function whose code is a single atom loses its name entry (its key "
                "then maps to a source location while <hash>_arguments remains)" % g.path, fn=g.path)
    R.floor("R13.O7", "build_symbol_table_mut call sites", n7, 1)

    # ---------------- O4 ------------------------------------------------------------------------
    cg = prog.fn("compiler::codegen::codegen")
    if cg is None:
        R.viol("R13.O4", "R13.O4|anchor-lost|codegen", "compiler::codegen", "anchor lost: codegen")
    else:
        fl = Flow(cg)
        steps = [bb for bb, t in cg.calls() if callee_of(t) == "compiler::codegen::codegen_"]
        copies = []
        for bb, t in cg.calls():
            c = callee_of(t) or ""
            if c.endswith("::clone_from") or c.endswith("::extend") or c.endswith("::clone"):
                srcl = op_local(t["args"][-1]) if t["args"] else None
                flds = fields_read_into(cg, fl, fl.back_pure([srcl])) if srcl is not None else set()
                recv_sym = any((callee_of(tt) or "").endswith("::symbols") for x in fl.back([op_local(t["args"][0])] if t["args"] and op_local(t["args"][0]) is not None else [])
                               for _, tt in fl.call_defs.get(x, []))
                if "function_symbols" in flds and (recv_sym or c.endswith("::clone_from")):
                    copies.append(bb)
        R.floor("R13.O4", "codegen_ calls in codegen", len(steps), 1, cg.path)
        ok = bool(copies) and all(any(c in cg.reachable(s) for c in copies) for s in steps) and \
            not any(s in cg.reachable(cg.term(c).get("target", c)) for c in copies for s in steps)
        R.check(ok, "R13.O4", "R13.O4|symbols-after-codegen", cg.loc(copies[0]) if copies else "%s:%s" % (cg.file, cg.line),
                "auto: context.symbols() is filled from function_symbols after the last codegen_ call",
                "codegen copies function_symbols into the reported symbol table before all functions are generated (or not at "
                "all): entries for later functions would be missing", fn=cg.path)
    # ---------------- O8: the extraction search looks at every node, atoms included -------------------------
    # A symbol entry is only usable if the code it names can be found again in the program: path_to_function searches the
    # compiled program for a subtree with the entry's hash.  An optimised function body can be a single atom (`5` for
    # (defun ident (X) X)), so the arm for non-pairs must compare the node's hash with the wanted one as well.
    PTF = "compiler::compiler::path_to_function_inner"
    pf = prog.fn(PTF) or prog.fn("compiler::compiler::path_to_function")
    if pf is None:
        R.viol("R13.O8", "R13.O8|anchor-lost|path_to_function", "compiler::compiler", "anchor lost: path_to_function(_inner)")
    else:
        pfl = Flow(pf)
        hash_param = next((i for i in range(1, pf.argc + 1) if "[u8]" in pf.local_ty(i)), None)
        eq_blocks = []
        for bb, t in pf.calls():
            c = callee_of(t) or ""
            if c.endswith("::eq") or c.endswith("::ne"):
                ls = [op_local(a) for a in t["args"] if op_local(a) is not None]
                if hash_param is not None and any(hash_param in pfl.back_pure([l]) for l in ls):
                    eq_blocks.append(bb)
        leaf_entry = None
        for bb, b in enumerate(pf.blocks):
            t = b["t"]
            if t["k"] == "switch" and not b.get("cleanup"):
                dl = op_local(t["discr"])
                for st in b["s"]:
                    if st["pl"]["l"] == dl and st["rv"]["k"] == "discr":
                        arms = [tgt for v, tgt in t["arms"]]
                        # SExp::Cons is the explicit arm; everything else (atoms, nil, integers, strings) the otherwise arm
                        leaf_entry = t["otherwise"] if len(arms) == 1 else None
        ok = leaf_entry is not None and bool(eq_blocks) and must_pass_all(pf, leaf_entry, pf.return_blocks(), eq_blocks)
        R.check(ok, "R13.O8", "R13.O8|leaf-nodes-compared", "%s:%s" % (pf.file, pf.line),
                "auto: the search compares the hash of non-pair nodes with the wanted hash on every path of that arm",
                "path_to_function does not compare the hash of atom nodes with the wanted hash on every path: a function whose "
                "(optimised) code is a single atom has a symbol entry but cannot be extracted through it", fn=pf.path)
    return R.finalize()


def chain_before(prog, clo):
    """The Result-combinator steps preceding the one that takes closure `clo`, nearest first:
    [{'closure': path, 'calls': [short callee names], 'returns_param': bool}] and finally the originating call."""
    par = prog.fns[clo.parent]
    pfl = Flow(par)
    clos_local = None
    for bb, i, s in par.stmts():
        if s["rv"]["k"] == "agg" and s["rv"].get("agg") == "closure" and s["rv"]["closure"] == clo.path:
            clos_local = s["pl"]["l"]
    start = None
    for bb, t in par.calls():
        for a in t["args"][1:]:
            if clos_local is not None and op_local(a) == clos_local:
                start = t
            c = op_const(a)
            if c and c.get("closure") == clo.path:
                start = t
    out = []
    cur = start
    n = 0
    while cur is not None and n < 16:
        n += 1
        recv = op_local(cur["args"][0]) if cur["args"] else None
        if recv is None:
            break
        nxt = None
        for bb, t in pfl.call_defs.get(recv, []):
            name = (callee_of(t) or "").rsplit("::", 1)[-1]
            if name in ("and_then", "map", "map_err", "or_else", "inspect"):
                nxt = t
                for a in t["args"][1:]:
                    cl = None
                    l = op_local(a)
                    if l is not None:
                        for b2, i2, s2 in par.stmts():
                            if s2["pl"]["l"] == l and s2["rv"]["k"] == "agg" and s2["rv"].get("agg") == "closure":
                                cl = s2["rv"]["closure"]
                    c = op_const(a)
                    if c and "closure" in c:
                        cl = c["closure"]
                    if cl and cl in prog.fns:
                        g = prog.fns[cl]
                        gfl = Flow(g)
                        calls = [(callee_of(tt) or "?").rsplit("::", 1)[-1] for _, tt in g.calls()]
                        out.append({"closure": cl, "calls": calls, "returns_param": 2 in gfl.back_pure([0])})
            else:
                out.append({"closure": "<origin>", "calls": [name], "returns_param": True})
        cur = nxt
    return out
