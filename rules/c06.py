"""C06 (partial) — structural agreement of the stepping evaluator with the consensus evaluator.

The stepping evaluator (compiler::clvm::run_step) re-implements quote, apply,
if, cons, first, rest, environment-path lookup and argument counting and hands
every other operator to clvmr.  Decided here, for every input at once:

R06.arity     the argument counts it enforces for i, c, a, f, r equal the const-generic N of
              `get_args::<N>` in the consensus implementation of the same opcode (sibling constants,
              both sides recovered from MIR, opcode -> function through ChiaDialect::op);
R06.path      every environment lookup flattens the path to a non-negative number before
              descending, and an all-zero path is answered before the descent (the consensus
              traverse_path returns nil for it; the descent `p -> p/2 until p == 1` cannot);
              the descent takes the first child on an even step and the rest child on an odd one;
R06.quote     opcode 1 returns its unevaluated tail;
R06.delegate  apply_op quotes the already evaluated arguments by position: environment
              (nil . args), references 5, 11, 23, ... = 2s+1 from 5 (or env = args from 2), one
              per argument, head unchanged, result = the Reduction's value (field 1).

NOT decided: everything value-level (truthiness, big-integer conversions, evaluation order in
general, error agreement for the delegated operators, cost/step limits)."""
import runner
from defs import const_ints
from flow import Flow
from mir import callee_of, op_const, op_int, op_local, op_place, rv_operands
from paths import must_pass
from report import Report
import inline

PID = "C06"
RUN_STEP = "compiler::clvm::run_step"
CHOOSE = "compiler::clvm::choose_path"
APPLY_OP = "compiler::clvm::apply_op"
GEN_REFS = "compiler::clvm::generate_argument_refs"
FLATTEN = "compiler::clvm::flatten_signed_int"
CHIA_OP = "<chia_dialect::ChiaDialect as dialect::Dialect>::op"
KEEP = None   # filled below: anchors the rules look for as calls are never inlined


def with_helpers(prog, path):
    """The function with its private helper functions inlined (two levels), anchors excepted, so that extracting a
    block into a helper or folding one back does not change what the rules see."""
    f = prog.fn(path)
    if f is None:
        return None
    base = inline.default_pred(prog, f)
    return inline.inlined(prog, f, pred=lambda g: base(g) and g.path not in KEEP, depth=2)


COPYISH = ("::clone", "::borrow", "::deref", "::as_ref", "Rc::<T>::new", "::to_owned", "::into", "::from")


def is_bigint_eq(t):
    c = callee_of(t) or ""
    return "num_bigint::BigInt" in c and (c.endswith("PartialEq>::eq") or c.endswith("PartialEq>::ne"))


def direct_sources(fl, l):
    """Locals l derives from through copies only (calls other than clone/borrow/deref stop the slice)."""
    def stop(x):
        cs = fl.call_defs.get(x, [])
        return bool(cs) and not all(any((callee_of(t) or "").endswith(s) or s + ">" in (callee_of(t) or "") for s in COPYISH) for _, t in cs)
    return fl.back_pure([l], stop=stop)


def small_const(fl, l):
    ints = set(const_ints(fl.consts_into([l])))
    return next(iter(ints)) if len(ints) == 1 else None


def skip_trivial(f, bb, limit=6):
    """Follow goto-only blocks."""
    while limit > 0:
        b = f.blocks[bb]
        if b["s"] or b["t"]["k"] not in ("goto", "drop"):
            return bb
        bb = b["t"]["target"]
        limit -= 1
    return bb


def true_target(f, bb_call):
    """Block taken when the bool call result of block bb_call is true."""
    t = f.term(bb_call)
    nxt = t.get("target")
    if nxt is None:
        return None
    sw = f.term(nxt)
    if sw["k"] != "switch":
        return None
    return sw["otherwise"] if any(v == 0 for v, _ in sw["arms"]) else None


def false_target(f, bb_call):
    t = f.term(bb_call)
    nxt = t.get("target")
    if nxt is None:
        return None
    sw = f.term(nxt)
    if sw["k"] != "switch":
        return None
    for v, tgt in sw["arms"]:
        if v == 0:
            return tgt
    return None


def recover_arity_table(f, fl, prog=None):
    """opcode -> enforced argument count, from the chain `if aval == K {W = n}`; also returns W and its default.
    Two-stage forms are composed: `if aval == K { E = Variant }` (a fieldless enum classifying the opcode) followed by
    `match E { Variant => W = n, .. }`."""
    table = {}
    wlocals = {}
    default = None
    enum_stage = {}      # K -> (enum local, variant name)
    payload_adt = None
    for bb, t in f.calls():
        if not is_bigint_eq(t):
            continue
        ks = [small_const(fl, op_local(a)) for a in t["args"] if op_local(a) is not None]
        ks = [k for k in ks if k is not None]
        if len(ks) != 1:
            continue
        tt = true_target(f, bb)
        if tt is None:
            continue
        tgt = skip_trivial(f, tt)
        for s in f.blocks[tgt]["s"]:
            if not s["pl"]["p"] and s["rv"]["k"] == "use" and op_int(s["rv"]["op"]) is not None \
                    and f.local_ty(s["pl"]["l"]) in ("i32", "usize", "i64", "u32", "isize"):
                table[ks[0]] = op_int(s["rv"]["op"])
                wlocals[s["pl"]["l"]] = wlocals.get(s["pl"]["l"], 0) + 1
            elif not s["pl"]["p"] and s["rv"]["k"] == "agg" and s["rv"].get("agg") == "adt" and len(s["rv"]["ops"]) == 1 \
                    and op_int(s["rv"]["ops"][0]) is not None and s["rv"].get("variant") and "std::" not in (s["rv"].get("adt") or "std::"):
                # payload form: `W = Wanted::Exactly(n)` (a private enum instead of a sentinel integer)
                table[ks[0]] = op_int(s["rv"]["ops"][0])
                wlocals[s["pl"]["l"]] = wlocals.get(s["pl"]["l"], 0) + 1
                payload_adt = s["rv"]["adt"]
            elif not s["pl"]["p"] and s["rv"]["k"] == "agg" and s["rv"].get("agg") == "adt" and not s["rv"]["ops"] \
                    and s["rv"].get("variant") and ks[0] not in enum_stage:
                enum_stage[ks[0]] = (s["pl"]["l"], s["rv"]["adt"], s["rv"]["variant"])
    if not table and enum_stage and prog is not None:
        adt_path = next(iter(enum_stage.values()))[1]
        adt = prog.adts.get(adt_path)
        vidx = {v["name"]: i for i, v in enumerate(adt["variants"])} if adt else {}
        elocals = set()
        for l, _, _ in enum_stage.values():
            elocals |= fl.forward([l])
        # switch on the discriminant of (a copy of) the classification
        stage2 = {}
        dflt2 = None
        for bb, b in enumerate(f.blocks):
            t = b["t"]
            if t["k"] != "switch" or b.get("cleanup"):
                continue
            dl = op_local(t["discr"])
            ok = False
            for st in b["s"]:
                if st["pl"]["l"] == dl and st["rv"]["k"] == "discr" and st["rv"]["pl"]["l"] in elocals:
                    ok = True
            if not ok:
                continue
            arms = [(v, tgt) for v, tgt in t["arms"]] + [("otherwise", t["otherwise"])]
            found = {}
            for v, tgt in arms:
                tb = skip_trivial(f, tgt)
                for s in f.blocks[tb]["s"]:
                    if not s["pl"]["p"] and s["rv"]["k"] == "use" and op_int(s["rv"]["op"]) is not None \
                            and f.local_ty(s["pl"]["l"]) in ("i32", "usize", "i64", "u32", "isize"):
                        found[v] = (s["pl"]["l"], op_int(s["rv"]["op"]))
            if len(found) >= 3 and len({w for w, _ in found.values()}) == 1:
                stage2 = {v: n for v, (w, n) in found.items()}
                wl = next(iter(found.values()))[0]
                wlocals[wl] = len(found)
                break
        for K, (l, adt_p, vname) in enum_stage.items():
            i = vidx.get(vname)
            if i in stage2:
                table[K] = stage2[i]
            elif "otherwise" in stage2 and i is not None:
                table[K] = stage2["otherwise"]
        # the count of the classification's catch-all variant
        mapped = {vidx.get(v) for _, _, v in enum_stage.values()}
        rest_vals = {n for v, n in stage2.items() if v not in mapped}
        default = next(iter(rest_vals)) if len(rest_vals) == 1 else None
    w = max(wlocals, key=wlocals.get) if wlocals else None
    if w is not None and default is None and payload_adt is not None:
        # payload form: the only other value W takes is a fieldless variant of the same enum - no count to enforce
        others = [s2 for _, _, s2 in f.stmts() if s2["pl"]["l"] == w and not s2["pl"]["p"] and s2["rv"]["k"] == "agg"
                  and s2["rv"].get("adt") == payload_adt and not s2["rv"]["ops"]]
        counted = [s2 for _, _, s2 in f.stmts() if s2["pl"]["l"] == w and not s2["pl"]["p"] and s2["rv"]["k"] == "agg"
                   and s2["rv"].get("adt") == payload_adt and s2["rv"]["ops"]]
        if others and counted:
            default = -1
    if w is not None and default is None:
        vals = set()
        for _, _, s in f.stmts():
            if s["pl"]["l"] == w and not s["pl"]["p"] and s["rv"]["k"] == "use" and op_int(s["rv"]["op"]) is not None:
                vals.add(op_int(s["rv"]["op"]))
        rest = vals - set(table.values())
        default = next(iter(rest)) if len(rest) == 1 else None
    return table, w, default


def consensus_arity(cprog):
    """opcode -> N from get_args::<N> in the consensus implementation; apply from run_program's get_args(.., "apply")."""
    import c20
    out = {}
    f = cprog.fn(CHIA_OP)
    if f is None:
        return out, "ChiaDialect::op not found"
    small = {}
    for bb, arms in c20.switch_table(f, None, "", ""):
        if all(v < 256 for v in arms) and len(arms) > len(small):
            small = arms
    for opc, a in small.items():
        impl = a[1] if a[0] == "fn" else (a[2] if a[0] == "guard" else None)
        if impl is None:
            continue
        g = cprog.fn(c20.strip_crate(impl)) or cprog.fn(impl)
        if g is None:
            continue
        ns = set()
        for _, t in g.calls():
            if (callee_of(t) or "").endswith("op_utils::get_args") and t.get("gargs"):
                try:
                    ns.add(int(t["gargs"][0]))
                except ValueError:
                    pass
        if len(ns) == 1:
            out[opc] = next(iter(ns))
    # apply
    for g in cprog.fns.values():
        if "run_program" not in g.path:
            continue
        for _, t in g.calls():
            if (callee_of(t) or "").endswith("op_utils::get_args") and t.get("gargs"):
                gfl = Flow(g)
                strs = [c.get("str") for a in t["args"] if op_local(a) is not None for c in gfl.consts_into([op_local(a)])]
                strs += [op_const(a).get("str") for a in t["args"] if op_const(a) is not None]
                if "apply" in strs:
                    out["apply"] = int(t["gargs"][0])
    return out, None


def run(tier="quick", replay=None):
    R = Report(PID, tier,
               "PARTIAL claim. Sibling comparison of the stepping evaluator's own operator handling with the consensus "
               "evaluator, both recovered from MIR: enforced argument counts of i/c/a/f/r vs get_args::<N> of the consensus "
               "implementation reached through ChiaDialect::op; the environment-path lookup flattens the path, answers the "
               "all-zero path before descending and takes first on even / rest on odd steps; quote returns its tail "
               "unevaluated; apply_op quotes evaluated arguments by position and returns the reduction's value. These are "
               "necessary conditions of agreement for every program; agreement itself is value-level and NOT decided.",
               "MIR constant/edge recovery + sibling comparison with clvmr facts + must-pass-through")
    prog, cprog, infos = runner.load("default", want_clvmr=True)
    R.facts_info = infos
    R.trusted = ["rustc MIR construction", "clvmr 0.16.2 from the offline registry as the consensus evaluator"]
    R.assumptions = ["partial: value-level agreement (truthiness, conversions, delegated operators' results, errors) is not decided"]
    global KEEP
    KEEP = {RUN_STEP, CHOOSE, APPLY_OP, GEN_REFS, FLATTEN, "compiler::clvm::atom_value", "compiler::clvm::translate_head",
            "compiler::clvm::eval_args", "compiler::clvm::combine", "compiler::clvm::truthy", "compiler::clvm::convert_to_clvm_rs",
            "compiler::clvm::convert_from_clvm_rs", "compiler::clvm::run", "compiler::clvm::step_return_value"}
    f = with_helpers(prog, RUN_STEP)
    if f is None or cprog is None:
        R.viol("R06", "R06|anchor-lost|run_step", "compiler::clvm", "anchor lost: run_step or clvmr facts")
        return R.finalize()
    fl = Flow(f)
    site = "%s:%s" % (f.file, f.line)

    # ---------------- R06.arity ------------------------------------------------------------------
    table, w, default = recover_arity_table(f, fl, prog)
    cons, err = consensus_arity(cprog)
    if err:
        R.viol("R06.arity", "R06.arity|anchor-lost|consensus", "clvmr", "anchor lost: " + err)
    import c20
    kcf = c20.const_return(cprog.fn(c20.CHIA_PREFIX + "apply_kw")) if cprog.fn(c20.CHIA_PREFIX + "apply_kw") else None
    R.floor("R06.arity", "opcodes with an enforced argument count", len(table), 5, site)
    # W is compared with the length of the evaluated argument list
    used = False
    if w is not None:
        fw = fl.forward([w])
        for _, _, s in f.stmts():
            rv = s["rv"]
            if rv["k"] == "bin" and rv["op"] in ("Ne", "Eq"):
                ls = [op_local(rv["a"]), op_local(rv["b"])]
                if any(l in fw for l in ls if l is not None):
                    other = [l for l in ls if l is not None and l not in fw]
                    if any(fl.derives_from_call(o, lambda c: c.endswith("::len")) for o in other):
                        used = True
    R.check(used, "R06.arity", "R06.arity|count-is-compared-with-len", site,
            "auto: the enforced count is compared with the evaluated argument list's length",
            "the recovered argument-count variable is no longer compared with the argument list's length: counts are not enforced",
            fn=RUN_STEP)
    for opc in sorted(table):
        want = cons.get("apply") if (kcf is not None and opc == kcf) else cons.get(opc)
        R.check(want is not None and table[opc] == want, "R06.arity", "R06.arity|opcode-%d" % opc, site,
                "auto: stepping evaluator enforces %d argument(s) for opcode %d = get_args::<%s> in the consensus implementation" % (
                    table[opc], opc, want),
                "stepping evaluator enforces %d argument(s) for opcode %d but the consensus implementation takes get_args::<%s>: "
                "one of them accepts/rejects an argument list the other does not" % (table[opc], opc, want), fn=RUN_STEP)
    R.check(default is not None and default < 0, "R06.arity", "R06.arity|default-unchecked", site,
            "auto: all other operators carry no local count (delegated to the consensus implementation)",
            "operators without a special case get the enforced count %r instead of none: delegated operators would be rejected "
            "by count before reaching the consensus implementation" % default, fn=RUN_STEP)

    # ---------------- R06.path -------------------------------------------------------------------
    cp_sites = [(bb, t) for bb, t in f.calls() if callee_of(t) == CHOOSE]
    R.floor("R06.path", "environment lookups in run_step", len(cp_sites), 1, site)
    cf = with_helpers(prog, CHOOSE)
    for bb, t in cp_sites:
        # the numeric path arguments are the big-integer arguments, whatever their position (free function, method, trait method)
        flat = []
        for a_ in t["args"]:
            al_ = op_local(a_)
            if al_ is not None and "BigInt" in f.local_ty(al_):
                flat += fl.derives_from_call(al_, lambda c: c == FLATTEN)
        R.check(bool(flat), "R06.path", "R06.path|flattened", f.loc(bb),
                "auto: the path handed to choose_path is the result of flatten_signed_int",
                "run_step descends with a path that was not made non-negative by flatten_signed_int: atoms with the top bit "
                "set (0x80..) would be treated as negative numbers, which the consensus evaluator reads as unsigned paths", fn=RUN_STEP)
        # zero test: in run_step before the call on every path, or in choose_path on p itself
        zblocks = []
        src = set()
        for fb, ft in flat:
            for a in ft["args"]:
                if op_local(a) is not None:
                    src |= direct_sources(fl, op_local(a))
        for b2, t2 in f.calls():
            c2 = callee_of(t2) or ""
            if is_bigint_eq(t2) or c2.endswith("Zero>::is_zero") or c2.endswith("::is_zero"):
                args = [op_local(a) for a in t2["args"] if op_local(a) is not None]
                zero = [a for a in args if fl.derives_from_call(a, lambda c: c.endswith("bi_zero") or c.endswith("Zero>::zero"))
                        or small_const(fl, a) == 0] if is_bigint_eq(t2) else [None]
                val = [a for a in args if direct_sources(fl, a) & src]
                if zero and val:
                    zblocks.append(b2)
        in_caller = bool(zblocks) and must_pass(f, 0, [bb], zblocks)
        in_callee = False
        if cf is not None:
            cfl = Flow(cf)
            for b2, t2 in cf.calls():
                if is_bigint_eq(t2):
                    args = [op_local(a) for a in t2["args"] if op_local(a) is not None]
                    zero = [a for a in args if cfl.derives_from_call(a, lambda c: c.endswith("bi_zero") or c.endswith("Zero>::zero"))]
                    big_params = {i for i in range(1, cf.argc + 1) if "BigInt" in cf.local_ty(i)}
                    val = [a for a in args if big_params & direct_sources(cfl, a)]
                    if zero and val:
                        in_callee = True
        R.check(in_caller or in_callee, "R06.path", "R06.path|all-zero-path-answered", f.loc(bb),
                "auto: the path value is compared with zero before the descent (%s)" % ("in run_step on every path" if in_caller else "in choose_path"),
                "run_step descends into choose_path without testing the path for zero: the descent halves p until p == 1, which 0 never "
                "reaches, so an all-zero path atom (0x00, 0x0000) fails with 'bad path' while the consensus evaluator (traverse_path) "
                "returns nil for it", fn=RUN_STEP)
    # path atoms are unsigned: the Integer built from an Atom/QuotedString payload in run_step must not come from a signed
    # big-integer conversion (the signed value is re-encoded minimally before flatten_signed_int, losing redundant 0xff bytes)
    SIGNED = ("util::number_from_u8", "from_signed_bytes_be", "from_signed_bytes_le")
    natom = 0
    for bb, _, s in f.stmts():
        rv = s["rv"]
        if rv["k"] == "agg" and rv.get("variant") == "Integer" and "SExp" in rv.get("adt", "") and len(rv["ops"]) == 2:
            l = op_local(rv["ops"][1])
            if l is None:
                continue
            src = fl.back_pure([l], stop=lambda x: 0 < x <= f.argc)
            from_atom = False
            for _, _, s2 in f.stmts():
                if fl.node(s2["pl"]) in src:
                    for o in rv_operands(s2["rv"]):
                        p = op_place(o)
                        if p and any(isinstance(e, dict) and e.get("dc") in ("Atom", "QuotedString") for e in p["p"]):
                            from_atom = True
            if not from_atom:
                continue
            natom += 1
            signed = sorted({callee_of(t) for x in src for _, t in fl.call_defs.get(x, [])
                             if any(k in (callee_of(t) or "") for k in SIGNED)})
            R.check(not signed, "R06.path", "R06.path|atom-bytes-unsigned", "%s:%s" % (f.file, s.get("line", f.line)),
                    "auto: the path number built from an atom's bytes does not pass through a signed conversion",
                    "run_step turns a path atom's bytes into a number with %s (signed): redundant sign bytes are lost when the value "
                    "is re-encoded before flatten_signed_int, so 0xff80 selects path 128 where the consensus evaluator follows 65408" % signed,
                    fn=RUN_STEP)
    R.floor("R06.path", "path numbers built from atom bytes in run_step", natom, 1, site)
    # flatten_signed_int reads the number's ATOM bytes as unsigned: it must obtain those bytes from the encoder that defines
    # the atom (to_signed_bytes_* / u8_from_number), not re-derive the byte length arithmetically (an unchecked second
    # encoding: reported even if it happened to be right, see DESIGN 3.11)
    ff = with_helpers(prog, FLATTEN)
    if ff is None:
        R.viol("R06.path", "R06.path|anchor-lost|flatten_signed_int", "compiler::clvm", "anchor lost: flatten_signed_int")
    else:
        ffl = Flow(ff)
        enc = [callee_of(t) for _, t in ff.calls() if any(k in (callee_of(t) or "") for k in ("to_signed_bytes_le", "to_signed_bytes_be", "util::u8_from_number"))]
        ret_from_enc = any(ffl.derives_from_call(0, lambda c: "to_signed_bytes" in c or c.endswith("u8_from_number")) for _ in [0])
        arith = sorted({(callee_of(t) or "").rsplit("::", 1)[-1] for _, t in ff.calls()
                        if any(k in (callee_of(t) or "") for k in ("::bits", "ops::Shl", "ops::Add", "ops::Sub", "ops::Mul", "::pow"))
                        and "num_bigint" in (callee_of(t) or "")})
        R.check(bool(enc) and ret_from_enc and not arith, "R06.path", "R06.path|flatten-reads-atom-bytes", "%s:%s" % (ff.file, ff.line),
                "auto: flatten_signed_int reinterprets the bytes produced by %s" % sorted(set(c.rsplit("::", 1)[-1] for c in enc)),
                "flatten_signed_int does not reinterpret the number's atom bytes (encoder calls: %s; big-integer arithmetic: %s): the "
                "unsigned reading of a negative path is re-derived instead of read from the bytes the atom has, which is not checkable "
                "here and differs from the consensus reading whenever the derived byte length is off" % (enc, arith), fn=FLATTEN)
    if cf is None:
        R.viol("R06.path", "R06.path|anchor-lost|choose_path", "compiler::clvm", "anchor lost: choose_path")
    else:
        cfl = Flow(cf)
        # even -> first child (Cons field 1), odd -> rest child (field 2); recursion on p / 2
        rem_eq = None
        for b2, t2 in cf.calls():
            if is_bigint_eq(t2):
                args = [op_local(a) for a in t2["args"] if op_local(a) is not None]
                if any(cfl.derives_from_call(a, lambda c: "ops::Rem" in c) for a in args) and \
                        any(cfl.derives_from_call(a, lambda c: c.endswith("bi_zero")) or small_const(cfl, a) == 0 for a in args):
                    rem_eq = b2
        ok_child = False
        detail = "no `p % 2 == 0` test found"
        if rem_eq is not None:
            tb, fb = true_target(cf, rem_eq), false_target(cf, rem_eq)

            def child_field(bb):
                if bb is None:
                    return None
                bb = skip_trivial(cf, bb)
                for s in cf.blocks[bb]["s"]:
                    ls = [op_place(o) for o in rv_operands(s["rv"])]
                    for p0 in ls:
                        if p0 is None:
                            continue
                        cands = [p0]
                        for x in direct_sources(cfl, p0["l"]):
                            for _, _, s2 in cf.stmts():
                                if cfl.node(s2["pl"]) == x:
                                    cands += [op_place(o2) for o2 in rv_operands(s2["rv"]) if op_place(o2) is not None]
                        for p in cands:
                            if any(isinstance(e, dict) and e.get("dc") == "Cons" for e in p["p"]):
                                fs = [int(e["f"]) for e in p["p"] if isinstance(e, dict) and "f" in e and str(e["f"]).isdigit()]
                                if fs:
                                    return fs[-1]
                return None
            ct, cfa = child_field(tb), child_field(fb)
            two = [small_const(cfl, op_local(a)) for b2, t2 in cf.calls() if "ops::Rem" in (callee_of(t2) or "")
                   for a in t2["args"] if op_local(a) is not None]
            ok_child = ct == 1 and cfa == 2 and 2 in two
            detail = "even -> Cons field %s, odd -> Cons field %s, modulus %s" % (ct, cfa, [x for x in two if x is not None])
        R.check(ok_child, "R06.path", "R06.path|even-first-odd-rest", "%s:%s" % (cf.file, cf.line),
                "auto: choose_path takes the first child when p % 2 == 0 and the rest child otherwise",
                "choose_path's descent no longer maps an even step to the first child and an odd step to the rest child (%s); the "
                "consensus traverse_path takes right on a set bit, left otherwise" % detail, fn=CHOOSE)
        rec = [(b2, t2) for b2, t2 in cf.calls() if callee_of(t2) == CHOOSE]
        div_ok = bool(rec) and all(any(op_local(a_) is not None and cfl.derives_from_call(op_local(a_), lambda c: "ops::Div" in c)
                                       for a_ in t2["args"]) for _, t2 in rec)
        R.check(div_ok, "R06.path", "R06.path|halves", "%s:%s" % (cf.file, cf.line),
                "auto: the recursive descent continues with p / 2", "choose_path's recursion no longer continues with p / 2", fn=CHOOSE)

    # ---------------- R06.quote ------------------------------------------------------------------
    qok = False
    for bb, t in f.calls():
        if not is_bigint_eq(t):
            continue
        args = [op_local(a) for a in t["args"] if op_local(a) is not None]
        if any(fl.derives_from_call(a, lambda c: c.endswith("bi_one")) for a in args) and \
                any(fl.derives_from_call(a, lambda c: c.endswith("clvm::atom_value")) for a in args):
            tt = true_target(f, bb)
            if tt is None:
                continue
            region = f.reachable(tt, avoid=[false_target(f, bb)] if false_target(f, bb) is not None else ())
            for b2 in sorted(region)[:40]:
                for s in f.blocks[b2]["s"]:
                    rv = s["rv"]
                    if rv["k"] == "agg" and rv.get("variant") == "Done" and len(rv["ops"]) == 2:
                        l = op_local(rv["ops"][1])
                        if l is None:
                            continue
                        for x in direct_sources(fl, l):
                            for _, _, s2 in f.stmts():
                                if fl.node(s2["pl"]) == x:
                                    for o in rv_operands(s2["rv"]):
                                        p = op_place(o)
                                        if p and any(isinstance(e, dict) and e.get("dc") == "Cons" for e in p["p"]) and \
                                                [e["f"] for e in p["p"] if isinstance(e, dict) and "f" in e][-1:] == ["2"]:
                                            qok = True
    R.check(qok, "R06.quote", "R06.quote|returns-tail-unevaluated", site,
            "auto: when the head's value is 1 the step finishes with the form's tail (Cons field 2), unevaluated",
            "run_step no longer answers a form whose head evaluates to opcode 1 with its unevaluated tail", fn=RUN_STEP)

    # ---------------- R06.delegate ---------------------------------------------------------------
    delegs = [(bb, t) for bb, t in f.calls() if callee_of(t) == APPLY_OP]
    R.floor("R06.delegate", "delegations to the consensus evaluator in run_step", len(delegs), 1, site)
    a = with_helpers(prog, APPLY_OP)
    g = with_helpers(prog, GEN_REFS)
    if a is None or g is None:
        R.viol("R06.delegate", "R06.delegate|anchor-lost", "compiler::clvm", "anchor lost: apply_op / generate_argument_refs")
    else:
        afl = Flow(a)
        asite = "%s:%s" % (a.file, a.line)
        gr = [(bb, t) for bb, t in a.calls() if callee_of(t) == GEN_REFS]
        rp = [(bb, t) for bb, t in a.calls() if (callee_of(t) or t.get("callee") or "").endswith("TRunProgram::run_program")]
        start = small_const(afl, op_local(gr[0][1]["args"][0])) if gr and op_local(gr[0][1]["args"][0]) is not None else None
        # parameters by role, not by position: `args` is what the references are generated over, `head` the other s-expression
        sexp_params = [i for i in range(1, a.argc + 1) if "SExp" in a.local_ty(i) and "Allocator" not in a.local_ty(i)]
        args_param = None
        if gr and op_local(gr[0][1]["args"][1]) is not None:
            cand = [i for i in sexp_params if i in direct_sources(afl, op_local(gr[0][1]["args"][1]))]
            args_param = cand[0] if len(cand) == 1 else None
        others = [i for i in sexp_params if i != args_param]
        head_param = others[0] if len(others) == 1 else None
        refs_from_args = args_param is not None
        # the environment: Cons{_, Nil, args} (start 5) or args itself (start 2)
        wrapped = None
        for bb, i, s in a.stmts():
            rv = s["rv"]
            if rv["k"] == "agg" and rv.get("variant") == "Cons" and len(rv["ops"]) == 3:
                l1, l2 = op_local(rv["ops"][1]), op_local(rv["ops"][2])
                first_nil = l1 is not None and any(s2["rv"]["k"] == "agg" and s2["rv"].get("variant") == "Nil"
                                                   for x in direct_sources(afl, l1) for _, _, s2 in a.stmts() if afl.node(s2["pl"]) == x)
                if first_nil and l2 is not None and args_param in direct_sources(afl, l2):
                    wrapped = s["pl"]["l"]
        prog_ok = env_ok = False
        if rp and gr:
            t = rp[0][1]
            pl_, el_ = op_local(t["args"][2]), op_local(t["args"][3])
            pb = afl.back_pure([pl_]) if pl_ is not None else set()
            eb = afl.back_pure([el_]) if el_ is not None else set()
            grd = gr[0][1]["dest"]["l"]
            prog_ok = grd in pb and head_param in pb
            if start == 5:
                env_ok = wrapped is not None and wrapped in eb and grd not in eb
            elif start == 2:
                env_ok = args_param in eb and grd not in eb and (wrapped is None or wrapped not in eb)
        R.check(bool(gr) and bool(rp) and start in (2, 5) and refs_from_args and prog_ok and env_ok, "R06.delegate",
                "R06.delegate|positional-quoting", asite,
                "auto: program = (head . refs from %s over args), environment = %s" % (start, "(nil . args)" if start == 5 else "args"),
                "apply_op no longer hands the consensus evaluator `(head . argument references)` with the evaluated arguments as "
                "environment by position (first reference %s, references built over args=%s, program ok=%s, environment ok=%s)" % (
                    start, refs_from_args, prog_ok, env_ok), fn=APPLY_OP)
        # generate_argument_refs: element = Integer(start); next = 1 + 2*start
        gfl = Flow(g)
        # next reference = 2*start + 1, in big-integer arithmetic: Mul by 2 or Shl by 1, then Add / BitOr with one
        def bigop(t, names):
            c = callee_of(t) or ""
            return "num_bigint" in c and any(("ops::" + n) in c for n in names)
        mul = [(bb, t) for bb, t in g.calls() if bigop(t, ("Mul", "Shl"))]
        add = [(bb, t) for bb, t in g.calls() if bigop(t, ("Add", "BitOr"))]
        rec = [(bb, t) for bb, t in g.calls() if callee_of(t) == GEN_REFS]
        f_ok = False
        fixed_width = [s2["rv"]["op"] for _, _, s2 in g.stmts() if s2["rv"]["k"] == "bin" and
                       s2["rv"]["op"].replace("WithOverflow", "").replace("Unchecked", "") in ("Shl", "Mul", "Add", "BitOr")
                       and 1 in direct_sources(gfl, s2["pl"]["l"]) | {x for o in (s2["rv"]["a"], s2["rv"]["b"]) if op_local(o) is not None
                                                                      for x in direct_sources(gfl, op_local(o))}]
        if mul and add and rec:
            mt = mul[0][1]
            is_shl = "ops::Shl" in (callee_of(mt) or "")
            margs = [op_local(x) for x in mt["args"]]
            factor = 1 if is_shl else 2
            m2 = any((small_const(gfl, x) == factor and 1 not in direct_sources(gfl, x)) for x in margs if x is not None) or \
                any(op_int(x) == factor for x in mt["args"])
            ms = any(1 in direct_sources(gfl, x) for x in margs if x is not None)
            aargs = [op_local(x) for x in add[0][1]["args"]]
            a1 = any((gfl.derives_from_call(x, lambda c: c.endswith("bi_one")) or small_const(gfl, x) == 1)
                     and mt["dest"]["l"] not in gfl.back_pure([x]) for x in aargs if x is not None) or \
                any(op_int(x) == 1 for x in add[0][1]["args"])
            am = any(mt["dest"]["l"] in gfl.back_pure([x]) for x in aargs if x is not None)
            rarg = op_local(rec[0][1]["args"][0])
            rn = rarg is not None and add[0][1]["dest"]["l"] in gfl.back_pure([rarg])
            f_ok = m2 and ms and a1 and am and rn
        elem_ok = False
        for _, _, s in g.stmts():
            rv = s["rv"]
            if rv["k"] == "agg" and rv.get("variant") == "Integer" and len(rv["ops"]) == 2:
                l = op_local(rv["ops"][1])
                if l is not None and 1 in direct_sources(gfl, l):
                    elem_ok = True
        R.check(f_ok and elem_ok, "R06.delegate", "R06.delegate|reference-sequence", "%s:%s" % (g.file, g.line),
                "auto: generate_argument_refs emits Integer(start) per argument and continues with 1 + 2*start",
                "generate_argument_refs no longer emits the reference `start` for each argument and continues with 1 + 2*start "
                "(big-integer formula ok=%s, element ok=%s%s): the n-th evaluated argument would be fetched from the wrong position" % (
                    f_ok, elem_ok, "; the reference is computed in fixed-width machine arithmetic (%s), which overflows silently from the "
                    "63rd argument on" % sorted(set(fixed_width)) if fixed_width and not f_ok else ""), fn=GEN_REFS)
        # the result is the reduction's value
        val_ok = False
        for cl in prog.family(APPLY_OP):        # the function itself (`let Reduction(_, v) = ..?`) or one of its closures
            cfl2 = Flow(cl)
            for bb, t in cl.calls():
                if (callee_of(t) or "").endswith("clvm::convert_from_clvm_rs"):
                    l = op_local(t["args"][2]) if len(t["args"]) > 2 else None
                    if l is not None:
                        for x in cfl2.back_pure([l]):
                            for _, _, s2 in cl.stmts():
                                if cfl2.node(s2["pl"]) == x:
                                    for o in rv_operands(s2["rv"]):
                                        p = op_place(o)
                                        if p and [e["f"] for e in p["p"] if isinstance(e, dict) and "f" in e][-1:] == ["1"]:
                                            val_ok = True
        R.check(val_ok, "R06.delegate", "R06.delegate|result-is-reduction-value", asite,
                "auto: the delegated result converted back is field 1 (the value) of the Reduction",
                "apply_op no longer converts the Reduction's value (field 1) back as the operator's result", fn=APPLY_OP)
    # ---------------- R06.head --------------------------------------------------------------------
    TH = "compiler::clvm::translate_head"
    th = with_helpers(prog, TH)
    if th is None:
        R.viol("R06.head", "R06.head|anchor-lost|translate_head", "compiler::clvm", "anchor lost: translate_head")
    else:
        tfl = Flow(th)
        tsite = "%s:%s" % (th.file, th.line)
        # (1) an operator atom is identified by its exact bytes: where an atom that is not an operator NAME is reduced to a
        # number (number_from_u8), the reduction is guarded by `u8_from_number(n) != bytes => error` (0x0001 is not quote)
        nums = [(bb, t) for bb, t in th.calls() if (callee_of(t) or "").endswith("util::number_from_u8")]
        recs = [(bb, t) for bb, t in th.calls() if callee_of(t) == TH]
        guarded = True
        nred = 0
        for nb, nt in nums:
            feeds = [(rb, rt) for rb, rt in recs if any(nt["dest"]["l"] in tfl.back_pure([op_local(a)]) for a in rt["args"] if op_local(a) is not None)]
            if not feeds:
                continue
            nred += 1
            ok_here = False
            for cb, ct in th.calls():
                c = callee_of(ct) or ""
                if not (c.endswith("::ne") or c.endswith("::eq")):
                    continue
                ls = [op_local(a) for a in ct["args"] if op_local(a) is not None]
                enc = [l for l in ls if any(ft["dest"]["l"] in tfl.back_pure([l]) for fb, ft in th.calls()
                                            if (callee_of(ft) or "").endswith("util::u8_from_number") and nt["dest"]["l"] in tfl.back_pure([op_local(ft["args"][0]) or -1]))]
                if not enc:
                    continue
                tb, fb = true_target(th, cb), false_target(th, cb)
                same_b, diff_b = (fb, tb) if c.endswith("::ne") else (tb, fb)
                if same_b is None or diff_b is None:
                    continue
                if all(rb in th.reachable(same_b, avoid=[diff_b]) and rb not in th.reachable(diff_b, avoid=[same_b]) for rb, _ in feeds):
                    ok_here = True
            guarded = guarded and ok_here
        R.check(nred >= 1 and guarded, "R06.head", "R06.head|operator-bytes-exact", tsite,
                "auto: an atom head is reduced to an opcode number only if re-encoding the number gives back the atom's bytes",
                "translate_head reduces a head atom to its numeric value without checking that the atom is that number's canonical "
                "encoding: 0x0001 is run as quote (and 0x0002 as apply ..) while the consensus evaluator rejects it as an unknown "
                "operator", fn=TH)
        # (2) a pair in head position: the consensus evaluator reads ((X) args..) as "apply X to the unevaluated args"; it is
        # never evaluated as a program of its own
        runs = [(bb, t) for bb, t in th.calls() if callee_of(t) == "compiler::clvm::run"]
        R.check(not runs, "R06.head", "R06.head|pair-head-evaluated-as-program", th.loc(runs[0][0]) if runs else tsite,
                "auto: translate_head does not evaluate a pair in head position as a program",
                "translate_head evaluates a pair in head position ((X) ..) as a program of its own to obtain the operator; the "
                "consensus evaluator applies X to the UNEVALUATED arguments instead, so ((16) 1 2) is 3 for consensus and a failure "
                "for the stepping evaluator", fn=TH)
    # the delegated result comes back through convert_from_clvm_rs: it must not lose bytes (shared rule with C07)
    import c07
    c07.check_roundtrip_guard(prog, R, "R06.delegate", "R06.delegate|result-conversion")
    return R.finalize()
