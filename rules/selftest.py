"""Checker self-test: apply each seeded variant under /verif/selftest/<ID>/ (and
/verif/seeded/<name>/patch.diff whose meta names the property) to a scratch copy
of /repo, run the check against the copy, and compare with the expectation:
  `fire <rule-prefix>`  - the check must report a violation whose rule starts with it
  `silent`              - behaviour-preserving twin: the check must stay quiet
A diff that no longer applies is skipped with a note."""
import glob
import json
import os
import shutil
import subprocess
import sys
import tempfile

VERIF = os.path.dirname(os.path.dirname(os.path.abspath(__file__)))
REPO = "/repo"


def scratch_copy():
    d = tempfile.mkdtemp(prefix="verif-selftest-")
    subprocess.run(["rsync", "-a", "--exclude", "target", "--exclude", ".git", "--exclude", "tmp",
                    REPO + "/", d + "/"], check=True)
    return d


def cases_for(pid):
    out = []
    for diff in sorted(glob.glob(os.path.join(VERIF, "selftest", pid, "*.diff"))):
        exp = diff[:-5] + ".expect"
        expect = open(exp).read().strip() if os.path.exists(exp) else "fire"
        out.append((os.path.basename(diff)[:-5], diff, expect))
    for meta in sorted(glob.glob(os.path.join(VERIF, "seeded", "*", "meta.json"))):
        m = json.load(open(meta))
        if m.get("property") == pid and m.get("selftest_expect"):
            out.append(("seeded/" + os.path.basename(os.path.dirname(meta)),
                        os.path.join(os.path.dirname(meta), "patch.diff"), m["selftest_expect"]))
    # behaviour-preserving refactors made by independent sub-agents (benign/<name>/): must stay silent for the checks whose
    # anchored code they touch
    for meta in sorted(glob.glob(os.path.join(VERIF, "benign", "*", "meta.json"))):
        m = json.load(open(meta))
        if pid in m.get("checks", []):
            out.append(("benign/" + os.path.basename(os.path.dirname(meta)),
                        os.path.join(os.path.dirname(meta), "patch.diff"), "silent"))
    return out


def run_case(pid, scratch, diff, expect, tier="quick"):
    r = subprocess.run(["patch", "-p1", "--no-backup-if-mismatch", "-i", diff], cwd=scratch,
                       capture_output=True, text=True)
    if r.returncode != 0:
        subprocess.run(["patch", "-R", "-p1", "--no-backup-if-mismatch", "-i", diff], cwd=scratch,
                       capture_output=True, text=True)
        return "skipped", "diff no longer applies: " + r.stdout.strip()[-200:]
    try:
        evid = tempfile.mkdtemp(prefix="verif-evid-")
        env = dict(os.environ)
        env["VERIF_REPO"] = scratch
        env["VERIF_EVID"] = evid
        c = subprocess.run([os.path.join(VERIF, "check"), pid, "--tier", tier], cwd=VERIF, env=env,
                           capture_output=True, text=True)
        shutil.rmtree(evid, ignore_errors=True)
        out = c.stdout
        rules = [ln.split("rule=")[1].split()[0] for ln in out.splitlines() if "rule=" in ln]
        if c.returncode == 2:
            return "error", "tool error: " + out[-600:]
        if expect.startswith("fire"):
            want = expect.split()[1:] or [""]
            hit = [r for r in rules if any(r.startswith(w) for w in want)]
            if c.returncode == 1 and hit:
                return "ok", "fired %s" % sorted(set(hit))
            return "MISSED", "expected %s, got exit=%d rules=%s" % (expect, c.returncode, sorted(set(rules)))
        else:
            if c.returncode == 0 and "VIOLATION" not in out:
                return "ok", "silent"
            return "FALSE-ALARM", "expected silence, got rules=%s" % sorted(set(rules))
    finally:
        subprocess.run(["patch", "-R", "-p1", "--no-backup-if-mismatch", "-i", diff], cwd=scratch,
                       capture_output=True, text=True)


def run_all(pid, only=None):
    cases = cases_for(pid)
    if only:
        cases = [c for c in cases if only in c[0]]
    if not cases:
        return []
    # cases run on a small pool of workers, each with its own scratch copy of /repo (fact extraction is serialised by the
    # cache lock, the rule evaluation overlaps)
    import threading
    from concurrent.futures import ThreadPoolExecutor
    nworkers = max(1, min(int(os.environ.get("VERIF_SELFTEST_JOBS", "4")), len(cases)))
    local = threading.local()
    scratches = []
    lock = threading.Lock()

    def work(case):
        if not hasattr(local, "scratch"):
            local.scratch = scratch_copy()
            with lock:
                scratches.append(local.scratch)
        name, diff, expect = case
        st, msg = run_case(pid, local.scratch, diff, expect)
        return {"case": name, "expect": expect, "status": st, "detail": msg}
    res = []
    try:
        with ThreadPoolExecutor(max_workers=nworkers) as ex:
            for r in ex.map(work, cases):
                res.append(r)
                print("  selftest %-5s %-28s %-12s %s" % (pid, r["case"], r["status"], r["detail"]))
                sys.stdout.flush()
    finally:
        for sc in scratches:
            shutil.rmtree(sc, ignore_errors=True)
    return res


def main(argv):
    pids = [argv[0].upper()] if argv else sorted(
        os.path.basename(d) for d in glob.glob(os.path.join(VERIF, "selftest", "C*")))
    only = argv[1] if len(argv) > 1 else None
    bad = 0
    for pid in pids:
        for r in run_all(pid, only):
            if r["status"] not in ("ok", "skipped"):
                bad += 1
    return 1 if bad else 0
