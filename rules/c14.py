"""C14 — front ends never crash or hang: guarded panic sites and bounded
compile-time evaluation.

R14.a  every panic-capable site of a fixed set of kinds that is reachable
       (call graph with CHA) from a front-end entry point is discharged by the
       length domain, an infallible producer, a dominating test, a constant
       non-zero divisor, or a reviewed table line.
R14.b  every compile-time CLVM evaluation started by the compiler is
       step-bounded."""
import json
import re
import os
from collections import defaultdict

import runner
from defs import Defs, const_ints
from flow import Flow
from lengthdom import LengthDomain, Summaries, filter_entry_facts
from mir import callee_of, op_const, op_int, op_local, op_place, rv_operands
from report import Report

PID = "C14"
VERIF = os.path.dirname(os.path.dirname(os.path.abspath(__file__)))

ENTRIES = [
    "classic::clvm::serialize::sexp_from_stream",
    "classic::clvm_tools::binutils::assemble",
    "classic::clvm_tools::binutils::disassemble",
    "classic::clvm_tools::clvmc::compile_clvm_text",
    "classic::clvm_tools::clvmc::compile_clvm",
    "classic::clvm_tools::cmds::brun",
    "classic::clvm_tools::cmds::cldb",
    "classic::clvm_tools::cmds::launch_tool",
    "classic::clvm_tools::cmds::opc",
    "classic::clvm_tools::cmds::opd",
    "classic::clvm_tools::cmds::run",
    "classic::clvm_tools::debug::check_unused",
    "compiler::cldb::hex_to_modern_sexp",
    "compiler::compiler::compile_file",
    "compiler::preprocessor::gather_dependencies",
    "compiler::preprocessor::preprocess",
    "compiler::repl::Repl::process_line",
    "compiler::sexp::parse_sexp",
]

# unwrap()/expect() receivers that cannot be None/Err, by producing callee (reviewed, one reason each)
INFALLIBLE = {
    "ToBigInt for u8>::to_bigint": "num-bigint: to_bigint on a primitive integer always returns Some",
    "ToBigInt for u16>::to_bigint": "num-bigint: to_bigint on a primitive integer always returns Some",
    "ToBigInt for u32>::to_bigint": "num-bigint: to_bigint on a primitive integer always returns Some",
    "ToBigInt for u64>::to_bigint": "num-bigint: to_bigint on a primitive integer always returns Some",
    "ToBigInt for usize>::to_bigint": "num-bigint: to_bigint on a primitive integer always returns Some",
    "ToBigInt for i8>::to_bigint": "num-bigint: to_bigint on a primitive integer always returns Some",
    "ToBigInt for i16>::to_bigint": "num-bigint: to_bigint on a primitive integer always returns Some",
    "ToBigInt for i32>::to_bigint": "num-bigint: to_bigint on a primitive integer always returns Some",
    "ToBigInt for i64>::to_bigint": "num-bigint: to_bigint on a primitive integer always returns Some",
    "ToBigInt for isize>::to_bigint": "num-bigint: to_bigint on a primitive integer always returns Some",
    "ToBigInt for num_bigint::BigInt>::to_bigint": "identity conversion",
    "ToBigInt for num_bigint::BigUint>::to_bigint": "BigUint always fits a BigInt",
}


def load_table():
    p = os.path.join(VERIF, "tables", "panic_sites.json")
    return json.load(open(p)) if os.path.exists(p) else {}


KEY_BY_NAME = bool(os.environ.get("VERIF_C14_KEYS_BY_NAME"))     # migration aid only
KEYS_V2 = bool(os.environ.get("VERIF_C14_KEYS_V2"))               # migration aid only


def describe_place_key(f, key):
    """Stable description of an indexed place for violation keys: the base local is named by its TYPE head, never by its
    source name (renaming a local must not void a reviewed table line); field / variant projections are kept."""
    if key is None:
        return "?"
    l, path = key
    if KEY_BY_NAME:
        n = f.local_name(l)
        if not n:
            if 1 <= l <= f.argc:
                n = "arg%d" % l
            else:
                ty = f.local_ty(l).replace("&mut ", "").replace("&", "")
                n = "<" + ty.split("<")[0].rsplit("::", 1)[-1] + ">"
        return n + "".join("." + p for p in path)
    if not KEYS_V2:
        # v3: only the trailing projection identifies the access: no base local, no base type, no iteration plumbing
        # (`.@Some.0` of Iterator::next, the capture index of a closure environment) - a `for` loop and the equivalent
        # iterator closure index the same thing
        segs = list(path)
        if "{closure@" in f.local_ty(l) and segs and segs[0].isdigit():
            segs = segs[1:]
        out = []
        i = 0
        while i < len(segs):
            if segs[i] in ("@Some", "@Ok") and i + 1 < len(segs) and segs[i + 1] == "0":
                i += 2
                continue
            out.append(segs[i])
            i += 1
        while out and out[0].isdigit():
            out = out[1:]          # leading tuple positions of a pattern-bound element
        return "".join("." + p for p in out)
    ty = f.local_ty(l).replace("&mut ", "").replace("&", "").strip()
    while ty.startswith("std::rc::Rc<") or ty.startswith("std::boxed::Box<"):
        ty = ty[ty.index("<") + 1:-1]
    n = "<" + ty.split("<")[0].rsplit("::", 1)[-1].strip("[]; 0123456789") + ">"
    if "{closure@" in ty:
        n = "<closure-env>"          # closure type names carry line numbers
    if n == "<>":
        n = "<slice>" if "[" in f.local_ty(l) else "<?>"
    return n + "".join("." + p for p in path)


def describe_place_name(f, key):
    """Human-readable twin (source names) for messages."""
    if key is None:
        return "?"
    l, path = key
    n = f.local_name(l) or ("arg%d" % l if 1 <= l <= f.argc else "_%d" % l)
    return n + "".join("." + p for p in path)


class FnCtx:
    summ = None
    prog = None

    def __init__(self, f):
        self.f = f
        self._ld = None
        self._defs = None
        self._flow = None

    @property
    def ld(self):
        if self._ld is None:
            entry = filter_entry_facts(FnCtx.prog, self.f, FnCtx.summ) if self.f.kind == "Closure" and FnCtx.prog is not None else None
            self._ld = LengthDomain(self.f, FnCtx.prog, FnCtx.summ, entry=entry)
        return self._ld

    @property
    def defs(self):
        if self._defs is None:
            self._defs = Defs(self.f)
        return self._defs

    @property
    def flow(self):
        if self._flow is None:
            self._flow = Flow(self.f)
        return self._flow


def const_arith(ctx, l, depth=0):
    """Value of a local computed from integer constants only (e.g. 65536 * 65536)."""
    if depth > 6:
        return None
    ds = ctx.defs.by_local.get(l, [])
    if len(ds) != 1 or ds[0][0] != "stmt":
        return None
    rv = ds[0][3]["rv"]

    def val(op):
        v = op_int(op)
        if v is not None:
            return v
        ol = op_local(op)
        return const_arith(ctx, ol, depth + 1) if ol is not None else None
    if rv["k"] == "use":
        p = op_place(rv["op"])
        if p is not None and p["p"] and not [e for e in p["p"] if not (isinstance(e, dict) and e.get("f") == "0")]:
            return const_arith(ctx, p["l"], depth + 1)   # (checked-op result).0
        return val(rv["op"])
    if rv["k"] == "cast":
        return val(rv["op"])
    if rv["k"] == "bin":
        a, b = val(rv["a"]), val(rv["b"])
        if a is None or b is None:
            return None
        op = rv["op"].replace("WithOverflow", "").replace("Unchecked", "")
        try:
            return {"Mul": a * b, "Add": a + b, "Sub": a - b, "Shl": a << b, "BitOr": a | b, "BitAnd": a & b}.get(op)
        except Exception:
            return None
    return None


_CTX_CACHE = {}


def callers_guarantee(prog, f, key, need):
    """Interprocedural discharge for a PRIVATE helper: the place is a parameter of f (no projection) and at every call
    site in the crate the corresponding argument is known to hold at least `need` elements.  Returns a how-string or None."""
    if key is None or f.kind == "Closure":
        return None
    l, path = key
    if path or not (1 <= l <= f.argc) or (f.vis or "") == "Public":
        return None
    sites = prog.call_sites(lambda c: c == f.path)
    if not sites:
        return None
    for g, cbb, ct in sites:
        if g.path == f.path:
            return None
        if l - 1 >= len(ct["args"]):
            return None
        if g.path not in _CTX_CACHE:
            _CTX_CACHE[g.path] = FnCtx(g)
        gctx = _CTX_CACHE[g.path]
        akey = gctx.ld.key_of_operand(ct["args"][l - 1])
        if akey is None or gctx.ld.min_len_at_term(cbb, akey) < need:
            return None
    return "length: every caller (%d) passes an argument known to hold at least %d element(s)" % (len(sites), need)


def len_minus_const(ctx, l, depth=0):
    """If local l is `len(K) - k` (k a positive constant) return (K, k)."""
    if l is None or depth > 6:
        return None
    ds = ctx.defs.by_local.get(l, [])
    if len(ds) != 1 or ds[0][0] != "stmt":
        return None
    rv = ds[0][3]["rv"]
    if rv["k"] == "use":
        p = op_place(rv["op"])
        if p is not None and (not p["p"] or [str(e.get("f")) for e in p["p"] if isinstance(e, dict)] == ["0"]):
            return len_minus_const(ctx, p["l"], depth + 1)
        return None
    if rv["k"] == "bin" and rv["op"].replace("WithOverflow", "").replace("Unchecked", "") == "Sub":
        k = op_int(rv["b"])
        la = op_local(rv["a"])
        if k is not None and k > 0 and la is not None:
            key = ctx.ld.len_source(la)
            if key is not None:
                return (key, k)
    return None


def producer_of(ctx, l, depth=0):
    """Callee that produced local l (through moves)."""
    f = ctx.f
    ds = ctx.defs.by_local.get(l, [])
    if len(ds) != 1 or depth > 6:
        return None, None
    d = ds[0]
    if d[0] == "call":
        return callee_of(d[2]), d
    rv = d[3]["rv"]
    if rv["k"] == "use":
        ol = op_local(rv["op"])
        p = op_place(rv["op"])
        if ol is not None and not p["p"]:
            return producer_of(ctx, ol, depth + 1)
    if rv["k"] == "agg" and rv.get("agg") == "adt":
        return "agg:" + rv["adt"] + "::" + rv["variant"], d
    return None, d


def tested_some(ctx, bb, l):
    """Is the unwrap at block bb dominated by the Some/Ok edge of a test on the
    same place (is_some / is_ok / is_none / is_err / discriminant match)?"""
    f = ctx.f
    ld = ctx.ld
    key = ld.key_of_local(l)
    for sb, blk in enumerate(f.blocks):
        t = blk["t"]
        if t["k"] != "switch" or blk.get("cleanup"):
            continue
        dl = op_local(t["discr"])
        if dl is None:
            continue
        ds = ctx.defs.by_local.get(dl, [])
        if len(ds) != 1:
            continue
        d = ds[0]
        good_targets = []
        arms = dict((v, g) for v, g in t["arms"])
        if d[0] == "call":
            c = callee_of(d[2]) or ""
            name = c.rsplit("::", 1)[-1]
            if name in ("is_some", "is_ok", "is_none", "is_err") and d[2]["args"]:
                k2 = ld.key_of_operand(d[2]["args"][0])
                if k2 != key:
                    continue
                true_t = t["otherwise"] if 0 in arms else arms.get(1)
                false_t = arms.get(0, t["otherwise"])
                good = true_t if name in ("is_some", "is_ok") else false_t
                bad = false_t if name in ("is_some", "is_ok") else true_t
                good_targets = [(good, bad)]
        elif d[0] == "stmt" and d[3]["rv"]["k"] == "discr":
            k2 = ld.key_of_place(d[3]["rv"]["pl"])
            if k2 != key:
                continue
            ty = f.local_ty(d[3]["rv"]["pl"]["l"])
            if "Option<" in ty.split("<")[0] + "<":
                good, bad = arms.get(1), arms.get(0, t["otherwise"])
            else:
                good, bad = arms.get(0), arms.get(1, t["otherwise"])
            if good is None:
                good = t["otherwise"]
            good_targets = [(good, bad)]
        for good, bad in good_targets:
            if good is None or good == bad:
                continue
            # bb reachable only through the good edge: removing edge (sb -> good) makes bb unreachable
            if bb in f.reachable(0) and bb not in f.reachable(0, avoid_edges=[(sb, good)]):
                return True
    return False


SAFE_STR_BOUNDS = ("::find", "::rfind", "::len", "::char_indices", "::match_indices", "::rmatch_indices", "::unwrap_or_default",
                   "::unwrap_or", "::unwrap", "::map", "::clone", "::deref", "::as_str", "::borrow", "::as_ref")


def _defs_of(f, fl, x):
    return [s3 for _, _, s3 in f.stmts() if fl.node(s3["pl"]) == x and not s3["pl"]["p"]]


def _copies_only(f, fl, dst, src, depth=0):
    """dst is src through plain copies/moves (no arithmetic, no calls)."""
    if dst == src:
        return True
    if depth > 8:
        return False
    ds = _defs_of(f, fl, dst)
    if len(ds) != 1 or ds[0]["rv"]["k"] != "use" or fl.call_defs.get(dst):
        return False
    p = op_place(ds[0]["rv"]["op"])
    return p is not None and not p["p"] and _copies_only(f, fl, p["l"], src, depth + 1)


def _copy_root(f, fl, x):
    """The local x is a plain copy of (through whole-local copies/moves only)."""
    for _ in range(12):
        ds = _defs_of(f, fl, x)
        if len(ds) != 1 or ds[0]["rv"]["k"] != "use" or fl.call_defs.get(x):
            return x
        p = op_place(ds[0]["rv"]["op"])
        if p is None or p["p"]:
            return x
        x = p["l"]
    return x


def _sum_with(f, fl, total, part, depth=0):
    """total = part + <something unsigned> (through copies and the checked-add tuple)."""
    if depth > 8:
        return False
    ds = _defs_of(f, fl, total)
    if len(ds) != 1 or fl.call_defs.get(total):
        return False
    rv = ds[0]["rv"]
    if rv["k"] == "use":
        p = op_place(rv["op"])
        return p is not None and _sum_with(f, fl, p["l"], part, depth + 1)
    if rv["k"] == "bin" and rv["op"] in ("Add", "AddWithOverflow", "AddUnchecked"):
        for side in (rv["a"], rv["b"]):
            l = op_local(side)
            if l is not None and "usize" in f.local_ty(l) + "usize" and (l == part or _copies_only(f, fl, l, part) or _field_copy(f, fl, l, part)):
                return True
    return False


def _field_copy(f, fl, a, b):
    """a and b are both plain reads of the same place (e.g. two copies of self.seek)."""
    da, db = _defs_of(f, fl, a), _defs_of(f, fl, b)
    if len(da) != 1 or len(db) != 1 or da[0]["rv"]["k"] != "use" or db[0]["rv"]["k"] != "use":
        return False
    pa, pb = op_place(da[0]["rv"]["op"]), op_place(db[0]["rv"]["op"])
    return pa is not None and pb is not None and pa == pb and bool(pa["p"])


def range_slice_discharge(ctx, f, bb, t, cont, range_local):
    """Discharge of `x[a..b]` with computed bounds.  Strings: every computed bound must come from boundary-producing
    searches on a string (find/rfind/len/char_indices...), which yield char boundaries within the string.  Other
    sequences: every computed bound must be compared with len(x) on a dominating branch (bound <= len side) and, when
    both bounds are computed, start <= end must be tested too.  Returns (how | None, why-not)."""
    fl = ctx.flow
    bounds = []
    for bb2, i2, s2 in fl.agg_defs.get(range_local, []) if range_local is not None else []:
        bounds = list(s2["rv"]["ops"])
    if not bounds:
        return None, "the range could not be recovered"
    var = [o for o in bounds if op_int(o) is None]
    if any(op_int(o) not in (None, 0) for o in bounds) and not var:
        return None, "constant non-zero bounds without a length proof"
    is_str = "str" in cont.lower()
    if is_str:
        for o in var:
            l = op_local(o)
            if l is None:
                return None, "a bound is not a local"
            src = fl.back_pure([l], stop=lambda x: 0 < x <= f.argc)
            callees = {(callee_of(tt) or "?") for x in src for _, tt in fl.call_defs.get(x, [])}
            bad = sorted(c for c in callees if not any(c.endswith(sfx) or sfx + ">" in c for sfx in SAFE_STR_BOUNDS))
            arith_only = all(s3["rv"]["k"] in ("use", "bin", "cast", "ref") for x in src for _, _, s3 in f.stmts() if fl.node(s3["pl"]) == x)
            from_search = any(c.endswith("::find") or c.endswith("::rfind") or c.endswith("::len") or "indices" in c for c in callees)
            if bad or not from_search or not arith_only:
                return None, "a bound is not derived from a search on the string (find / rfind / len / char_indices): computed from %s" % (
                    bad or "columns / arithmetic")
        return "rangeslice: string bounds come from find/rfind/len searches (char boundaries inside the string)", ""
    # sequences: bound compared with the container's length on a dominating branch
    ckey = ctx.ld.key_of_operand(t["args"][0])
    doms = f.dominators().get(bb, set())
    tested = set()
    for d in doms:
        td = f.term(d)
        if td["k"] != "switch":
            continue
        dl = op_local(td["discr"])
        if dl is None:
            continue
        for _, _, s3 in f.stmts():
            if s3["pl"]["l"] == dl and s3["rv"]["k"] == "bin" and s3["rv"]["op"] in ("Le", "Lt", "Ge", "Gt"):
                a, b = op_local(s3["rv"]["a"]), op_local(s3["rv"]["b"])
                ka = ctx.ld.len_source(a) if a is not None else None
                kb = ctx.ld.len_source(b) if b is not None else None
                for bound in var:
                    bl = op_local(bound)
                    same = lambda x: x is not None and bl is not None and (x == bl or bl in fl.back_pure([x]) or x in fl.back_pure([bl]))
                    if (kb == ckey and ckey is not None and same(a)) or (ka == ckey and ckey is not None and same(b)):
                        tested.add(bl)
    # a bound that IS the sequence's length, or its length minus a constant the sequence is known to hold
    for o in var:
        bl = op_local(o)
        if bl is None or bl in tested:
            continue
        if ckey is not None and ctx.ld.len_source(bl) == ckey:
            tested.add(bl)
            continue
        lm = len_minus_const(ctx, bl)
        if lm and ckey is not None and lm[0] == ckey and ctx.ld.min_len_at_term(bb, ckey) >= lm[1]:
            tested.add(bl)
    # a bound computed FROM the sequence's length by an operation that cannot exceed it: len % k, len / k, len & m, len >> k,
    # min(len, y)
    def le_len(x, depth=0):
        if x is None or depth > 6:
            return False
        if ckey is not None and ctx.ld.len_source(x) == ckey:
            return True
        for _, tt in fl.call_defs.get(x, []):
            if (callee_of(tt) or "").rsplit("::", 1)[-1] == "min" and any(le_len(op_local(a), depth + 1) for a in tt["args"]):
                return True
        ds = _defs_of(f, fl, x)
        if len(ds) != 1 or fl.call_defs.get(x):
            return False
        rv = ds[0]["rv"]
        if rv["k"] == "use":
            pp = op_place(rv["op"])
            return pp is not None and not pp["p"] and le_len(pp["l"], depth + 1)
        if rv["k"] == "bin" and rv["op"] in ("Rem", "Div", "BitAnd", "Shr", "ShrUnchecked"):
            return le_len(op_local(rv["a"]), depth + 1) or (rv["op"] == "BitAnd" and le_len(op_local(rv["b"]), depth + 1))
        return False
    for o in var:
        bl = op_local(o)
        if bl is not None and bl not in tested and le_len(bl):
            tested.add(bl)
    # the sequence was resized, on a dominating path, to max(.., bound) (or to the bound itself): it holds at least `bound`
    # elements afterwards (`buf.resize(max(buf.len(), end), 0); buf[start..end]`)
    for d in doms:
        td = f.term(d)
        if td["k"] != "call" or not (callee_of(td) or "").endswith("Vec::<T, A>::resize") or len(td["args"]) < 2:
            continue
        if ckey is None or ctx.ld.key_of_operand(td["args"][0]) != ckey:
            continue
        nl = op_local(td["args"][1])
        if nl is None:
            continue
        nsrc = fl.back_pure([nl], stop=lambda x: 0 < x <= f.argc)
        for o in var:
            bl = op_local(o)
            if bl is None or bl in tested:
                continue
            same = lambda x: x is not None and _copy_root(f, fl, x) == _copy_root(f, fl, bl)
            if same(nl):
                tested.add(bl)
                continue
            for x in nsrc:
                for _, tt in fl.call_defs.get(x, []):
                    if (callee_of(tt) or "").rsplit("::", 1)[-1] == "max" and any(same(op_local(a)) for a in tt["args"]):
                        tested.add(bl)
    # a start bound from which a discharged end bound was computed by addition (end = start + n, unsigned): start <= end
    for o in var:
        bl = op_local(o)
        if bl is None or bl in tested:
            continue
        for o2 in var:
            el = op_local(o2)
            if el is None or el == bl or el not in tested:
                continue
            if _sum_with(f, fl, el, bl):
                tested.add(bl)
    if all(op_local(o) in tested for o in var):
        return "rangeslice: every computed bound is the sequence's length (minus a constant it is known to hold) or is compared with it on a dominating branch", ""
    return None, "no dominating comparison of the computed bound(s) with the sequence's length"


def check_requirement(prog, rq):
    """Machine-checked precondition attached to a reviewed table line.  Returns None when it holds, else why not.
    kind arg-unaltered: in function `fn`, the argument `arg` of the call whose callee ends with `callee_suffix` is the
    parameter `param` passed through copies / conversions only (callees ending in one of `allowed`): the value that was
    classified by the caller's guard is the value used, not a filtered or edited one."""
    from flow import Flow
    if rq.get("kind") != "arg-unaltered":
        return "unknown requirement kind %r" % rq.get("kind")
    f = prog.fn(rq["fn"])
    if f is None:
        return "function %s not found" % rq["fn"]
    sites = [(bb, t) for bb, t in f.calls() if (callee_of(t) or "").endswith(rq["callee_suffix"])]
    if not sites:
        return "%s no longer calls %s" % (rq["fn"], rq["callee_suffix"])
    fl = Flow(f)
    for bb, t in sites:
        l = op_local(t["args"][rq["arg"]])
        if l is None:
            return "argument %d of %s is not a local" % (rq["arg"], rq["callee_suffix"])
        src = fl.back_pure([l])
        if rq["param"] not in src:
            return "argument of %s does not derive from parameter %d of %s" % (rq["callee_suffix"], rq["param"], rq["fn"])
        for x in src:
            for _, tt in fl.call_defs.get(x, []):
                c = callee_of(tt) or tt.get("callee") or "?"
                if not any(c.endswith(a) for a in rq["allowed"]):
                    return "%s passes parameter %d through %s before %s: the value checked by the caller's guard is not the value used" % (
                        rq["fn"], rq["param"], c, rq["callee_suffix"])
    return None


def run(tier="quick", replay=None):
    R = Report(PID, tier,
               "Inventory (from MIR, reachable from the front-end entry points through the CHA call graph) of "
               "panic-capable sites of fixed kinds: constant-index Index/IndexMut calls and BoundsCheck asserts, "
               "constant-start range slicing, Option/Result unwrap/expect, explicit panic!/unreachable!/assert!, integer "
               "DivisionByZero/RemainderByZero asserts and BigInt div/rem. Each is discharged by a forward length-domain "
               "abstract interpretation (min_len facts from len()/is_empty()/slice-pattern tests, array types, push), an "
               "infallible producer (reviewed 12-line list), a dominating is_some/is_ok/discriminant test on the same "
               "place, a constant non-zero divisor, or a reviewed table line; anything else is a violation. Plus: every "
               "compile-time CLVM evaluation started by the compiler passes a step limit, and the evaluator loop tests it.",
               "MIR abstract interpretation (length domain) + dominance + call-graph reachability + reviewed table")
    prog, _, infos = runner.load("default")
    R.facts_info = infos
    R.trusted = ["rustc MIR construction", "CHA call graph over local impls", "tables/panic_sites.json (reviewed sites)",
                 "INFALLIBLE producer list in c14.py"]
    R.assumptions = ["variable-index accesses, arithmetic overflow (debug-only), RefCell double borrows, allocation failure, "
                     "stack depth and general termination are NOT decided", "the located-error clause (Srcloc within text) "
                     "is value-level and not decided", "panics inside dependencies (clvmr, num-bigint, ...) other than the "
                     "listed div/rem entry points are not decided"]
    table = load_table()
    used = set()
    FnCtx.prog = prog
    FnCtx.summ = Summaries(prog)
    present = [e for e in ENTRIES if e in prog.fns]
    R.floor("R14", "front-end entry points", len(present), 16)
    reach = prog.reachable_fns(present, callbacks=True)
    R.counts["reachable functions"] = len(reach)

    inv = defaultdict(int)
    dis = defaultdict(int)
    ordinal = defaultdict(int)
    excluded = defaultdict(int)

    auto_ord = defaultdict(int)

    def site_key(f, kind, detail):
        if KEYS_V2:
            fpath = re.sub(r"\{closure#\d+\}", "{closure}", f.path)
            base = "R14.a|%s|%s|%s" % (fpath, kind, detail)
            ordinal[base] += 1
            return base if ordinal[base] == 1 else "%s#%d" % (base, ordinal[base])
        # v3: keyed by the enclosing named function (closures folded in); the ordinal is assigned in settle() and counts
        # only sites that need a table line, so adding or removing a provably guarded access shifts nothing
        return "R14.a|%s|%s|%s" % (f.root, kind, detail)

    def settle(f, key, site, kind, auto_how, msg):
        inv[kind] += 1
        if not KEYS_V2:
            if auto_how:
                auto_ord[key] += 1
                key = "%s|auto#%d" % (key, auto_ord[key])
            else:
                ordinal[key] += 1
                key = key if ordinal[key] == 1 else "%s#%d" % (key, ordinal[key])
        if auto_how:
            dis[auto_how.split(":")[0]] += 1
            R.ob("R14.a", key, site, "auto: " + auto_how, fn=f.path)
        elif key in table:
            used.add(key)
            ent = table[key]
            if ent["class"] == "known-finding":
                R.viol("R14.a", key, site, msg, fn=f.path)
            else:
                broken = [why for why in (check_requirement(prog, rq) for rq in ent.get("requires", [])) if why]
                if broken:
                    R.viol("R14.a", key, site, msg + " — the reviewed table line (%s) rests on a precondition that no longer holds: %s" % (
                        ent["reason"], "; ".join(broken)), fn=f.path)
                else:
                    dis["table:" + ent["class"]] += 1
                    R.ob("R14.a", key, site, "table: %s — %s%s" % (ent["class"], ent["reason"],
                                                                   " [machine-checked precondition(s): %d]" % len(ent["requires"]) if ent.get("requires") else ""),
                         fn=f.path)
        else:
            R.viol("R14.a", key, site, msg, fn=f.path)

    def natural(pth):
        return [int(x) if x.isdigit() else x for x in re.split(r"(\d+)", pth)]
    for p in sorted(reach, key=natural):
        f = prog.fns[p]
        ctx = FnCtx(f)
        for bb, blk in enumerate(f.blocks):
            if blk.get("cleanup"):
                continue
            t = blk["t"]
            site = f.loc(bb)
            if t["k"] == "assert":
                if t["msg"] == "BoundsCheck":
                    k = op_int(t["index"])
                    if k is None and op_local(t["index"]) is not None:
                        k = const_arith(ctx, op_local(t["index"]))   # `_7 = const 0; assert(Lt(_7, len))`
                    if k is None:
                        lm = len_minus_const(ctx, op_local(t["index"]))
                        ckey = ctx.ld.len_source(op_local(t["len"])) if op_local(t["len"]) is not None else None
                        if lm and ckey is not None and lm[0] == ckey:
                            desc = describe_place_key(f, ckey)
                            key = site_key(f, "lastindex", "%s[len-%d]" % (desc, lm[1]))
                            desc = describe_place_name(f, ckey)
                            m = ctx.ld.min_len_at_term(bb, ckey)
                            how = "length: min_len(%s)=%d >= %d" % (desc, m, lm[1]) if m >= lm[1] else None
                            settle(f, key, site, "lastindex", how,
                                   "%s indexes %s[len - %d] with no proof that it holds at least %d element(s): on an empty "
                                   "container the subtraction underflows and the access panics" % (f.path, desc, lm[1], lm[1]))
                            continue
                        excluded["variable-index BoundsCheck"] += 1
                        continue
                    # the indexed place: len operand is Len/PtrMetadata of it, or a constant for arrays
                    n_const = op_int(t["len"])
                    if n_const is None and op_local(t["len"]) is not None:
                        n_const = const_arith(ctx, op_local(t["len"]))
                    lkey = ctx.ld.len_source(op_local(t["len"])) if op_local(t["len"]) is not None else None
                    desc = describe_place_key(f, lkey) if lkey else "array"
                    key = site_key(f, "bounds", "%s[%d]" % (desc, k))
                    desc = describe_place_name(f, lkey) if lkey else "array"
                    how = None
                    if n_const is not None and n_const > k:
                        how = "length: array of %d elements, index %d" % (n_const, k)
                    elif lkey is not None:
                        m = ctx.ld.min_len_at_term(bb, lkey)
                        if m > k:
                            how = "length: min_len(%s)=%d > %d" % (desc, m, k)
                        else:
                            how = callers_guarantee(prog, f, lkey, k + 1)
                    settle(f, key, site, "bounds", how,
                           "%s indexes %s[%d] with no dominating proof that it has more than %d element(s): panics on "
                           "short input" % (f.path, desc, k, k))
                elif t["msg"] in ("DivisionByZero", "RemainderByZero"):
                    # cond = Eq(divisor, 0) negated
                    cl = op_local(t["cond"])
                    divisor = None
                    ds = ctx.defs.by_local.get(cl, []) if cl is not None else []
                    if len(ds) == 1 and ds[0][0] == "stmt" and ds[0][3]["rv"]["k"] == "bin":
                        divisor = ds[0][3]["rv"]["a"]
                    dv = op_int(divisor) if divisor else None
                    if dv is None and divisor is not None and op_local(divisor) is not None:
                        dv = const_arith(ctx, op_local(divisor))
                    desc = "const" if dv is not None else ("var" if not KEY_BY_NAME else (
                        f.local_name(op_local(divisor)) or "_%s" % op_local(divisor) if divisor and op_local(divisor) is not None else "?"))
                    key = site_key(f, "div", "%s by %s" % (t["msg"], desc))
                    how = "divisor: constant %d" % dv if dv not in (None, 0) else None
                    settle(f, key, site, "div", how,
                           "%s divides by `%s` with no proof that it is non-zero (%s)" % (f.path, desc, t["msg"]))
                continue
            if t["k"] != "call":
                continue
            c = callee_of(t) or ""
            d = t.get("callee") or ""
            name = c.rsplit("::", 1)[-1]
            g = t.get("gargs", [])
            if d.endswith("ops::Index::index") or d.endswith("ops::IndexMut::index_mut"):
                ity = g[1] if len(g) > 1 else "?"
                cont = g[0] if g else "?"
                outer = cont.lstrip("&").replace("mut ", "", 1) if cont.startswith("&") else cont
                if outer.startswith(("std::collections::HashMap", "std::collections::BTreeMap", "serde_json::", "yaml_rust",
                                     "hashlink::", "indexmap::")):
                    inv["map-index"] += 0
                    key = site_key(f, "mapindex", cont.split("<")[0].split("::")[-1])
                    settle(f, key, site, "mapindex", None,
                           "%s indexes a map (%s) with `[]`, which panics on a missing key" % (f.path, cont[:60]))
                    continue
                rkey = ctx.ld.key_of_operand(t["args"][0])
                desc = describe_place_key(f, rkey)
                if ity == "usize":
                    k = op_int(t["args"][1])
                    if k is None and op_local(t["args"][1]) is not None:
                        k = const_arith(ctx, op_local(t["args"][1]))
                    if k is None:
                        lm = len_minus_const(ctx, op_local(t["args"][1]))
                        if lm and rkey is not None and lm[0] == rkey:
                            key = site_key(f, "lastindex", "%s[len-%d]" % (desc, lm[1]))
                            desc = describe_place_name(f, rkey)
                            m = ctx.ld.min_len_at_term(bb, rkey)
                            how = "length: min_len(%s)=%d >= %d" % (desc, m, lm[1]) if m >= lm[1] else None
                            settle(f, key, site, "lastindex", how,
                                   "%s indexes %s[len - %d] with no proof that it holds at least %d element(s): on an empty "
                                   "container the subtraction underflows and the access panics" % (f.path, desc, lm[1], lm[1]))
                            continue
                        excluded["variable-index Index"] += 1
                        continue
                    key = site_key(f, "index", "%s[%d]" % (desc, k))
                    desc = describe_place_name(f, rkey)
                    m = ctx.ld.min_len_at_term(bb, rkey) if rkey else 0
                    how = "length: min_len(%s)=%d > %d" % (desc, m, k) if m > k else callers_guarantee(prog, f, rkey, k + 1)
                    settle(f, key, site, "index", how,
                           "%s indexes %s[%d] with no dominating proof that it has more than %d element(s): panics "
                           "(index out of bounds) on short input" % (f.path, desc, k, k))
                elif "RangeFull" in ity:
                    continue
                elif "RangeFrom" in ity or "RangeTo" in ity or "Range<" in ity or "RangeInclusive" in ity:
                    # constant-start ranges only
                    fl = ctx.flow
                    al = op_local(t["args"][1])
                    start = None
                    if al is not None:
                        for bb2, i2, s2 in fl.agg_defs.get(al, []):
                            if s2["rv"].get("adt", "").endswith("RangeFrom") and s2["rv"]["ops"]:
                                start = op_int(s2["rv"]["ops"][0])
                    is_str = cont.strip() in ("str", "std::string::String", "String")
                    if start is None or "RangeFrom" not in ity or is_str:
                        how, why = range_slice_discharge(ctx, f, bb, t, "str" if is_str else "seq", al)
                        key = site_key(f, "rangeslice", ("str" if is_str else "seq") + "[a..b]")
                        settle(f, key, site, "rangeslice", how,
                               "%s slices a %s with a computed range and %s: panics (range out of bounds%s) for some inputs" % (
                                   f.path, "string" if is_str else "sequence", why, " / not a char boundary" if is_str else ""))
                        continue
                    key = site_key(f, "slice", "%s[%d..]" % (desc, start))
                    desc = describe_place_name(f, rkey)
                    m = ctx.ld.min_len_at_term(bb, rkey) if rkey else 0
                    how = "length: min_len(%s)=%d >= %d" % (desc, m, start) if m >= start else None
                    if start == 0:
                        how = "length: [0..] never panics"
                    settle(f, key, site, "slice", how,
                           "%s slices %s[%d..] with no proof that it has at least %d element(s)" % (f.path, desc, start, start))
                continue
            if name in ("unwrap", "expect", "unwrap_err", "expect_err") and ("Option::<T>" in c or "Result::<T, E>" in c) \
                    and c.startswith("std::"):
                l = op_local(t["args"][0])
                prod, pd = producer_of(ctx, l) if l is not None else (None, None)
                pname = (prod or "?")
                short = pname.rsplit("::", 1)[-1] if not pname.startswith("agg:") else pname
                key = site_key(f, name, short)
                how = None
                for sfx, why in INFALLIBLE.items():
                    if pname.endswith(sfx):
                        how = "infallible: " + why
                if how is None and pname.startswith("agg:") and pname.endswith(("::Some", "::Ok")) and name in ("unwrap", "expect"):
                    how = "infallible: value constructed as Some/Ok right here"
                if how is None and prod and pd and pd[0] == "call" and short in ("first", "last", "get", "pop", "first_mut", "last_mut") \
                        and ("slice" in prod or "Vec" in prod) and name in ("unwrap", "expect"):
                    pt = pd[2]
                    rkey = ctx.ld.key_of_operand(pt["args"][0])
                    need = 1
                    if short == "get":
                        gi = op_int(pt["args"][1])
                        need = None if gi is None else gi + 1
                    if rkey and need is not None:
                        m = ctx.ld.min_len_at_term(pd[1], rkey)
                        if m >= need:
                            how = "length: %s() on %s with min_len %d" % (short, describe_place_key(f, rkey), m)
                if how is None and short == "from_utf8" and pd and pd[0] == "call" and name in ("unwrap", "expect"):
                    # from_utf8 of a buffer that bin2hex just filled (ASCII hex digits only): the buffer's only other
                    # definition is its zero-filled creation
                    src = ctx.flow.back([op_local(pd[2]["args"][0])]) if op_local(pd[2]["args"][0]) is not None else set()
                    bufs = {x for x in src if x >= 0 and f.local_ty(x) in ("std::vec::Vec<u8>",) or (x >= 0 and f.local_ty(x).startswith("[u8;"))}
                    filled = [(b3, t3) for b3, t3 in f.calls() if (callee_of(t3) or "").endswith("::bin2hex") and len(t3["args"]) >= 2
                              and op_local(t3["args"][1]) is not None and (ctx.flow.back([op_local(t3["args"][1])]) & bufs)
                              and f.dominates(b3, pd[1])]
                    writers = [callee_of(t3) for b3, t3 in f.calls() if b3 not in {b for b, _ in filled}
                               and any(op_local(a) in src and i < len(t3.get("arg_tys", [])) and t3["arg_tys"][i].startswith("&mut ")
                                       for i, a in enumerate(t3["args"]))
                               and (callee_of(t3) or "").rsplit("::", 1)[-1] not in ("deref_mut", "as_mut_slice", "index_mut", "as_mut")]
                    if filled and not writers:
                        how = "infallible: from_utf8 of a buffer filled by bin2hex (ASCII hex digits only)"
                if how is None and l is not None and name in ("unwrap", "expect") and tested_some(ctx, bb, l):
                    how = "tested: dominated by the Some/Ok edge of a test on the same place"
                settle(f, key, site, "unwrap", how,
                       "%s calls %s() on the result of %s with no proof that it is Some/Ok: panics otherwise" % (f.path, name, pname))
                continue
            if "panicking::" in c or "begin_panic" in c or c.endswith("::unreachable") or "assert_failed" in c \
                    or c.endswith("process::abort") or c.endswith("process::exit") and False:
                if "panic_nounwind" in c or "panic_cannot_unwind" in c or "panic_misaligned" in c or "panic_null" in c \
                        or "panic_bounds_check" in c or "precondition_check" in c:
                    continue
                if "debug_assert" in (t.get("exp") or ""):
                    excluded["debug_assert (compiled out of release builds)"] += 1
                    continue
                key = site_key(f, "panic", c.rsplit("::", 1)[-1])
                settle(f, key, site, "panic", None, "%s contains an explicit panic (%s) reachable from a front end" % (f.path, c))
                continue
            if (t.get("callee_local") or t.get("target_local")) and FnCtx.summ is not None:
                sm = FnCtx.summ.get(c)
                if sm and sm[0] == "index" and sm[1] < len(t["args"]) and sm[3] < len(t["args"]):
                    k = op_int(t["args"][sm[3]])
                    if k is None and op_local(t["args"][sm[3]]) is not None:
                        k = const_arith(ctx, op_local(t["args"][sm[3]]))
                    if k is None:
                        excluded["variable-index accessor call (%s)" % name] += 1
                    else:
                        rk = ctx.ld.key_of_operand(t["args"][sm[1]])
                        rkey = (rk[0], rk[1] + tuple(sm[2])) if rk else None
                        desc = describe_place_key(f, rkey)
                        key = site_key(f, "accessor", "%s.%s(%d)" % (desc, name, k))
                        desc = describe_place_name(f, rkey)
                        m = ctx.ld.min_len_at_term(bb, rkey) if rkey else 0
                        how = "length: min_len(%s)=%d > %d (indexing accessor %s)" % (desc, m, k, c.rsplit("::", 2)[-2] + "::" + name) if m > k else None
                        settle(f, key, site, "accessor", how,
                               "%s calls the indexing accessor %s(%d) on %s with no proof that it holds more than %d element(s): "
                               "panics (index out of bounds) on short input" % (f.path, c, k, desc, k))
                    continue
            if c.startswith("std::vec::Vec::<T, A>::") and name in ("remove", "swap_remove", "insert", "split_off", "drain") \
                    or (name in ("split_at", "split_at_mut") and ("slice" in c)):
                k = op_int(t["args"][1]) if len(t["args"]) > 1 else None
                if k is None:
                    excluded["variable-position Vec::%s" % name] += 1
                    continue
                rkey = ctx.ld.key_of_operand(t["args"][0])
                desc = describe_place_key(f, rkey)
                need = k if name in ("insert", "split_off", "split_at", "split_at_mut") else k + 1
                key = site_key(f, "vecop", "%s.%s(%d)" % (desc, name, k))
                desc = describe_place_name(f, rkey)
                m = ctx.ld.min_len_at_term(bb, rkey) if rkey else 0
                how = "length: min_len(%s)=%d >= %d" % (desc, m, need) if m >= need else None
                settle(f, key, site, "vecop", how, "%s calls %s(%d) on %s without a length proof" % (f.path, name, k, desc))
                continue
            if c.startswith("num_bigint::") and (d.endswith("ops::Div::div") or d.endswith("ops::Rem::rem")
                                                 or name in ("div_rem", "div_floor", "mod_floor", "div_mod_floor",
                                                             "div_euclid", "rem_euclid")) or \
                    (name in ("div_rem", "div_floor", "mod_floor", "div_mod_floor") and "num_integer" in c):
                key = site_key(f, "bigdiv", name)
                settle(f, key, site, "bigdiv", None,
                       "%s performs big-integer %s; num-bigint panics on a zero divisor and no guard is proven" % (f.path, name))
                continue
    for k in table:
        if k.startswith("R14.a|") and k not in used:
            R.stale_table.append("panic_sites.json: " + k)
    R.counts["inventory"] = dict(inv)
    R.counts["discharged_by"] = dict(dis)
    R.counts["excluded (not decided)"] = dict(excluded)
    R.floor("R14.a", "panic-capable sites inventoried", sum(inv.values()), 200)

    check_bounded(prog, reach, R, table, used)
    check_file_recursion(prog, R)
    return R.finalize()


def check_file_recursion(prog, R):
    """R14.c: the preprocessor follows include forms recursively and the depth of that recursion is controlled by the
    FILES (a file that includes itself).  Every preprocessor function that reads a file and lies on a call-graph cycle
    must only be entered through a guard: a membership test of the file's name in a collection the preprocessor keeps,
    whose positive edge leads to an error and which dominates the call."""
    from paths import err_assign_blocks
    READ = "read_new_file"
    pre = {p: g for p, g in prog.fns.items() if p.startswith("compiler::preprocessor::Preprocessor::") and g.kind != "Closure"}
    edges = {p: {c for _, t in g.calls() for c in prog.call_targets(t) if c in pre} for p, g in pre.items()}
    for p in pre:            # closures run in their creator's frame
        for cl in prog.closures_of(p):
            edges[p] |= {c for _, t in cl.calls() for c in prog.call_targets(t) if c in pre}

    def reaches(a, b):
        seen, todo = set(), [a]
        while todo:
            x = todo.pop()
            for y in edges.get(x, ()):
                if y == b:
                    return True
                if y not in seen:
                    seen.add(y)
                    todo.append(y)
        return False
    readers = [p for p, g in pre.items()
               if any((callee_of(t) or t.get("callee") or "").endswith(READ) for _, t in g.calls()) and reaches(p, p)]
    R.floor("R14.c", "recursive file-reading functions in the preprocessor", len(readers), 2)

    def is_guard(g, target):
        gfl = Flow(g)
        tests = []
        for bb, t in g.calls():
            c = callee_of(t) or ""
            if c.rsplit("::", 1)[-1] in ("contains", "contains_key", "insert") and \
                    any(k in c for k in ("slice", "Vec", "HashSet", "BTreeSet", "HashMap", "BTreeMap", "[T]")):
                recv = op_place(t["args"][0]) if t["args"] else None
                if recv is not None and 1 in gfl.back_pure([gfl.node(recv)]):
                    tests.append((bb, t))
        calls = [bb for bb, t in g.calls() if target in prog.call_targets(t)]
        if not tests or not calls:
            return False
        errb = set(err_assign_blocks(g))
        for tb, tt in tests:
            nxt = tt.get("target")
            sw = g.term(nxt) if nxt is not None else None
            if not sw or sw["k"] != "switch":
                continue
            arms = dict((v, x) for v, x in sw["arms"])
            present = sw["otherwise"] if 0 in arms else arms.get(1)
            absent = arms.get(0, sw["otherwise"])
            if (callee_of(tt) or "").endswith("insert"):
                present, absent = absent, present        # insert() answers false when the element was present
            if present is None or absent is None:
                continue
            pres_region = g.reachable(present, avoid=[absent])
            if not (pres_region & errb):
                continue
            if any(cb in pres_region and cb not in g.reachable(absent) for cb in calls):
                continue
            if all(g.dominates(tb, cb) for cb in calls):
                return True
        return False
    # --- re-expansion of macro results: expand_macros calls itself on what a user macro returned; that recursion is
    # driven by user code and must be bounded by a depth counter kept in the preprocessor
    EM = "compiler::preprocessor::Preprocessor::expand_macros"
    em = pre.get(EM)
    if em is None:
        R.viol("R14.c", "R14.c|anchor-lost|expand_macros", "compiler::preprocessor", "anchor lost: Preprocessor::expand_macros")
    else:
        efl = Flow(em)
        errb = set(err_assign_blocks(em))
        reexp = []
        for bb, t in em.calls():
            if callee_of(t) == EM:
                for a in t["args"][1:]:
                    l = op_local(a)
                    if l is not None and efl.derives_from_call(l, lambda c: c == "compiler::clvm::run"):
                        reexp.append(bb)
        R.floor("R14.c", "re-expansions of a macro's result", len(reexp), 1, "%s:%s" % (em.file, em.line))
        for rb in reexp:
            guarded = False
            for gb in em.dominators().get(rb, ()):
                tt = em.term(gb)
                if tt["k"] != "switch":
                    continue
                dl = op_local(tt["discr"])
                for st in em.blocks[gb]["s"]:
                    rv = st["rv"]
                    if st["pl"]["l"] == dl and rv["k"] == "bin" and rv["op"] in ("Ge", "Gt", "Lt", "Le"):
                        sides = [op_local(rv["a"]), op_local(rv["b"])]
                        from_self = any(x is not None and 1 in efl.back_pure([x]) and em.local_ty(x) in ("usize", "u32", "u64", "i32") for x in sides)
                        has_const = op_int(rv["a"]) is not None or op_int(rv["b"]) is not None
                        # one side of the branch leads to an error without reaching the re-expansion
                        outs = em.succ(gb)
                        err_side = [o for o in outs if rb not in em.reachable(o) and (em.reachable(o) & errb)]
                        if from_self and has_const and err_side:
                            guarded = True
            R.check(guarded, "R14.c", "R14.c|bounded-macro-reexpansion", em.loc(rb),
                    "auto: the re-expansion of a macro's result is dominated by a depth test on a counter of the preprocessor that errors out",
                    "expand_macros expands the result of a user macro again with no bound on the nesting: a macro whose expansion "
                    "uses itself ((defmac m () (q . (m)))) recurses until the stack overflows", fn=EM)
    import inline
    for p in sorted(readers):
        g = pre[p]
        callers = sorted(q for q in pre if p in edges[q] and q != p)
        # a guard split into a helper (enter_include) is seen through inlining
        def guard_view(q):
            f0 = pre[q]
            base = inline.default_pred(prog, f0)
            return inline.inlined(prog, f0, pred=lambda h: base(h) and inline.same_module(f0, h) and h.path not in readers and h.path != p, depth=1)
        guarded = bool(callers) and all(is_guard(guard_view(q), p) for q in callers)
        R.check(guarded, "R14.c", "R14.c|guarded-file-recursion|%s" % p.rsplit("::", 1)[-1], "%s:%s" % (g.file, g.line),
                "auto: only entered through %s, which rejects a file that is already being read" % ", ".join(c.rsplit("::", 1)[-1] for c in callers),
                "%s reads a file and can re-enter itself through the forms of that file, but is not entered only through a guard "
                "that rejects a file already being read (callers: %s): a file that includes itself recurses until the stack "
                "overflows" % (p, ", ".join(c.rsplit("::", 1)[-1] for c in callers) or "none"), fn=p)


def option_is_some_everywhere(f, ctx, op):
    """Is the Option operand constructed as Some(..) on every definition?"""
    c = op_const(op)
    if c is not None:
        return False, "constant %s" % c.get("dbg", "")[:40]
    l = op_local(op)
    if l is None:
        return False, "?"
    seen = set()
    work = [l]
    kinds = set()
    while work:
        x = work.pop()
        if x in seen:
            continue
        seen.add(x)
        ds = ctx.defs.by_local.get(x, [])
        if not ds:
            if 1 <= x <= f.argc:
                kinds.add("param _%d" % x)
            else:
                kinds.add("undefined")
            continue
        for d in ds:
            if d[0] == "stmt":
                rv = d[3]["rv"]
                if d[3]["pl"]["p"]:
                    continue
                if rv["k"] == "agg" and rv.get("adt", "").endswith("option::Option"):
                    kinds.add(rv["variant"])
                elif rv["k"] == "use":
                    p = op_place(rv["op"])
                    if p is not None and not p["p"]:
                        work.append(p["l"])
                    elif p is not None:
                        flds = [e["f"] for e in p["p"] if isinstance(e, dict) and "f" in e]
                        kinds.add("field ." + ".".join(map(str, flds)))
                    else:
                        cc = op_const(rv["op"])
                        kinds.add("const" if cc else "?")
                else:
                    kinds.add(rv["k"])
            else:
                kinds.add("call " + (callee_of(d[2]) or "?").rsplit("::", 1)[-1])
    return kinds == {"Some"}, ", ".join(sorted(kinds))


def check_bounded(prog, reach, R, table, used):
    """R14.b: step limits on compile-time evaluation."""
    n_run = 0
    compile_reach = prog.reachable_fns(["compiler::compiler::compile_file", "compiler::preprocessor::preprocess",
                                        "compiler::preprocessor::gather_dependencies", "compiler::frontend::frontend"])
    for f in sorted(prog.fns.values(), key=lambda f: f.path):
        if f.path not in compile_reach:
            continue
        ctx = FnCtx(f)
        for bb, t in f.calls():
            c = callee_of(t) or ""
            if c == "compiler::clvm::run":
                n_run += 1
                key = "R14.b|%s|run|iter_limit" % f.path
                k2 = key
                i = 2
                while any(o["key"] == k2 for o in R.obligations):
                    k2 = "%s#%d" % (key, i)
                    i += 1
                ok, how = option_is_some_everywhere(f, ctx, t["args"][-1])
                if ok:
                    R.ob("R14.b", k2, f.loc(bb), "auto: iter_limit argument is Some(..) on every path", fn=f.path)
                elif k2 in table and table[k2]["class"] != "known-finding":
                    used.add(k2)
                    R.ob("R14.b", k2, f.loc(bb), "table: %s — %s" % (table[k2]["class"], table[k2]["reason"]), fn=f.path)
                else:
                    R.viol("R14.b", k2, f.loc(bb),
                           "%s runs CLVM at compile time (compiler::clvm::run) with iter_limit = %s: a non-terminating "
                           "program (e.g. a looping defmac / constant) hangs the compiler instead of producing an error" % (
                               f.path, how), fn=f.path)
    R.floor("R14.b", "compile-time run() call sites", n_run, 5)
    # the evaluator loop tests the limit
    run = prog.fn("compiler::clvm::run")
    if run is None:
        R.viol("R14.b", "R14.b|anchor-lost|run", "compiler::clvm", "anchor lost: compiler::clvm::run")
    else:
        ctx = FnCtx(run)
        steps = [(bb, t) for bb, t in run.calls() if (callee_of(t) or "") == "compiler::clvm::run_step"]
        R.floor("R14.b", "run_step calls in run", len(steps), 1)
        # find the comparison of a counter with the limit payload, and require that each run_step call is
        # only reachable (from the loop head = that comparison's block) via its continue edge
        limit_param = None
        for i in range(1, run.argc + 1):
            if run.local_ty(i) == "std::option::Option<usize>" and (run.local_name(i) or "").startswith("iter"):
                limit_param = i
        if limit_param is None:
            for i in range(run.argc, 0, -1):
                if run.local_ty(i) == "std::option::Option<usize>":
                    limit_param = i
                    break
        ok = False
        why = "no comparison of the step counter with the limit found"
        if limit_param is not None:
            fl = ctx.flow
            lim_locals = fl.forward([limit_param])
            for sb, blk in enumerate(run.blocks):
                tt = blk["t"]
                if tt["k"] != "switch" or blk.get("cleanup"):
                    continue
                dl = op_local(tt["discr"])
                ds = ctx.defs.by_local.get(dl, []) if dl is not None else []
                if len(ds) == 1 and ds[0][0] == "stmt" and ds[0][3]["rv"]["k"] == "bin" and \
                        ds[0][3]["rv"]["op"] in ("Gt", "Ge", "Lt", "Le"):
                    a, b = op_local(ds[0][3]["rv"]["a"]), op_local(ds[0][3]["rv"]["b"])
                    if (a in lim_locals) != (b in lim_locals):
                        # one edge must lead to an error return without run_step, the other to run_step
                        arms = [g for _, g in tt["arms"]] + [tt["otherwise"]]
                        step_blocks = {bb for bb, _ in steps}
                        leads = [bool(run.reachable(g, avoid=[sb]) & step_blocks) for g in arms]
                        if any(leads) and not all(leads):
                            # the comparison sits under `if let Some(limit)`: find that discriminant switch
                            dsw = None
                            for db, dblk in enumerate(run.blocks):
                                dt = dblk["t"]
                                if dt["k"] != "switch" or dblk.get("cleanup"):
                                    continue
                                ddl = op_local(dt["discr"])
                                dds = ctx.defs.by_local.get(ddl, []) if ddl is not None else []
                                if len(dds) == 1 and dds[0][0] == "stmt" and dds[0][3]["rv"]["k"] == "discr" and \
                                        dds[0][3]["rv"]["pl"]["l"] in lim_locals | {limit_param}:
                                    arms_d = dict((v, g) for v, g in dt["arms"])
                                    some_t = arms_d.get(1, dt["otherwise"] if 1 not in arms_d else None)
                                    if some_t is not None and sb in run.reachable(some_t):
                                        dsw = (db, some_t)
                            if dsw is None:
                                # unconditional comparison: every step must pass it
                                if all(bb2 not in run.reachable(0, avoid=[sb]) for bb2 in step_blocks):
                                    ok = True
                                else:
                                    why = "a run_step call is reachable without passing the limit test"
                            else:
                                db, some_t = dsw
                                c1 = all(bb2 not in run.reachable(0, avoid=[db]) for bb2 in step_blocks)
                                c2 = all(bb2 not in run.reachable(some_t, avoid=[sb]) for bb2 in step_blocks)
                                if c1 and c2:
                                    ok = True
                                else:
                                    why = "with a limit present a run_step call is reachable without passing the limit test"
        if not ok and limit_param is not None:
            # combinator form: `if iter_limit.is_some_and(|limit| limit <= iters) { return Err(..) }` - the comparison lives in
            # the closure handed to an Option combinator applied to the limit; the branch on its result is the limit test
            fl = ctx.flow
            lim_locals = fl.forward([limit_param]) | {limit_param}
            step_blocks = {bb for bb, _ in steps}
            for sb, blk in enumerate(run.blocks):
                tt = blk["t"]
                if tt["k"] != "switch" or blk.get("cleanup"):
                    continue
                dl = op_local(tt["discr"])
                if dl is None:
                    continue
                for cb, ct in fl.call_defs.get(_copy_root(run, fl, dl), []):
                    nm = (callee_of(ct) or "").rsplit("::", 1)[-1]
                    if nm not in ("is_some_and", "map_or", "is_none_or", "map_or_else") or not ct["args"]:
                        continue
                    if op_local(ct["args"][0]) not in lim_locals:
                        continue
                    has_cmp = False
                    for a in ct["args"][1:]:
                        c = op_const(a)
                        cl = c.get("closure") if c else None
                        al = op_local(a)
                        if cl is None and al is not None:
                            for _, _, st in run.stmts():
                                if st["pl"]["l"] == al and st["rv"]["k"] == "agg" and st["rv"].get("agg") == "closure":
                                    cl = st["rv"]["closure"]
                        g = prog.fns.get(cl) if cl else None
                        if g is not None and any(st["rv"]["k"] == "bin" and st["rv"]["op"] in ("Gt", "Ge", "Lt", "Le") for _, _, st in g.stmts()):
                            has_cmp = True
                    if not has_cmp:
                        continue
                    arms = [g_ for _, g_ in tt["arms"]] + [tt["otherwise"]]
                    leads = [bool(run.reachable(g_, avoid=[sb]) & step_blocks) for g_ in arms]
                    if any(leads) and not all(leads) and all(bb2 not in run.reachable(0, avoid=[sb]) for bb2 in step_blocks):
                        ok = True
        R.check(ok, "R14.b", "R14.b|compiler::clvm::run|limit-tested", "%s:%s" % (run.file, run.line),
                "auto: every run_step in run() is dominated by the comparison of the step counter with iter_limit",
                "compiler::clvm::run no longer tests its step limit before each step: " + why, fn=run.path)
    # the compiler's own partial-evaluation entries pass a depth limit
    n_shrink = 0
    for f in sorted(prog.fns.values(), key=lambda f: f.path):
        if f.path not in compile_reach or f.root.startswith("compiler::evaluate::") or f.root.startswith("compiler::repl::"):
            continue
        ctx = FnCtx(f)
        for bb, t in f.calls():
            c = callee_of(t) or ""
            if c == "compiler::evaluate::Evaluator::shrink_bodyform":
                n_shrink += 1
                key = "R14.b|%s|shrink_bodyform|stack_limit" % f.path
                k2 = key
                i = 2
                while any(o["key"] == k2 for o in R.obligations):
                    k2 = "%s#%d" % (key, i)
                    i += 1
                ok, how = option_is_some_everywhere(f, ctx, t["args"][-1])
                if ok:
                    R.ob("R14.b", k2, f.loc(bb), "auto: stack limit argument is Some(..)", fn=f.path)
                elif k2 in table and table[k2]["class"] != "known-finding":
                    used.add(k2)
                    R.ob("R14.b", k2, f.loc(bb), "table: %s — %s" % (table[k2]["class"], table[k2]["reason"]), fn=f.path)
                else:
                    R.viol("R14.b", k2, f.loc(bb), "%s starts partial evaluation (shrink_bodyform) with depth limit = %s: "
                           "unbounded recursion on a self-referential program" % (f.path, how), fn=f.path)
    R.floor("R14.b", "compiler-initiated shrink_bodyform entries", n_shrink, 3)
