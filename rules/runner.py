import importlib
import json
import os
import sys
import time

import facts
import mir

CHECKS = ["C05", "C06", "C07", "C08", "C10", "C11", "C12", "C13", "C14", "C18", "C19", "C20"]


def load(config="default", want_clvmr=False, bins=False):
    main, clvmr, info = facts.produce(config, want_clvmr=want_clvmr)
    infos = [info]
    bins_path = None
    if bins:
        bins_path, _, binfo = facts.produce("bins")
        infos.append(binfo)
    prog = mir.load_program(main, bins_path)
    cprog = None
    if clvmr:
        cprog = mir.Program()
        cprog.add(json.load(open(clvmr)))
    return prog, cprog, infos


def main(argv):
    if not argv:
        print(__doc__ or "usage: check <ID>|dump|setup")
        return 2
    cmd = argv[0]
    tier = os.environ.get("VERIF_TIER", "quick")
    replay = None
    config = "default"
    rest = []
    i = 1
    while i < len(argv):
        if argv[i] == "--tier":
            tier = argv[i + 1]
            i += 2
        elif argv[i] == "--replay":
            replay = argv[i + 1]
            i += 2
        elif argv[i] == "--config":
            config = argv[i + 1]
            i += 2
        else:
            rest.append(argv[i])
            i += 1
    try:
        if cmd == "setup":
            facts.build_driver()
            for cfg in ("default", "ext", "bins"):
                _, _, info = facts.produce(cfg, want_clvmr=(cfg == "default"))
                print("facts", info)
            return 0
        if cmd == "dump":
            prog, cprog, _ = load(config, want_clvmr=("--clvmr" in rest))
            rest = [r for r in rest if r != "--clvmr"]
            pat = rest[0]
            for p in (cprog if cprog and pat.startswith("clvmr:") else prog).fns.values():
                pp = pat[6:] if pat.startswith("clvmr:") else pat
                if (pp[1:] == p.path) if pp.startswith("=") else (pp in p.path):
                    print(p.dump())
                    print()
            return 0
        if cmd == "selftest":
            import selftest
            return selftest.main(rest)
        if cmd.upper() in CHECKS:
            pid = cmd.upper()
            mod = importlib.import_module(pid.lower())
            if replay:
                return do_replay(pid, mod, replay)
            rc = mod.run(tier=tier, replay=None)
            if tier == "thorough" and not os.environ.get("VERIF_REPO"):
                rc = thorough_extras(pid, rc)
            return rc
        print("unknown command", cmd)
        return 2
    except facts.ToolError as e:
        print("TOOL ERROR: %s" % e)
        return 2


def do_replay(pid, mod, path):
    """Re-evaluate one recorded violation on the current tree: run the check and
    report whether the violation with the same key is still produced."""
    want = json.load(open(path))
    key = want.get("key")
    import io
    import contextlib
    buf = io.StringIO()
    with contextlib.redirect_stdout(buf):
        rc = mod.run(tier="quick", replay=None)
    out = buf.getvalue()
    still = ("key=%s" % key) in out
    print("replay %s: violation %s %s on the current tree" % (pid, key, "REPRODUCES" if still else "does not reproduce"))
    if still:
        for ln in out.splitlines():
            if key in ln:
                print(ln)
        print("VIOLATION property=%s replay=%s" % (pid, path))
        return 1
    return 0


def thorough_extras(pid, rc):
    """Thorough tier: run the checker self-test corpus (seeded variants that must
    fire, behaviour-preserving twins that must stay silent) and, where defined,
    the clippy cross-reference; append the outcome to the evidence file.  A
    self-test failure means the CHECKER is broken (exit 2), not the property."""
    import selftest
    t0 = time.time()
    res = selftest.run_all(pid)
    bad = [r for r in res if r["status"] not in ("ok", "skipped")]
    xref = None
    try:
        import xref as xr
        xref = xr.cross_reference(pid)
    except Exception as e:   # cross-reference is advisory
        xref = {"error": str(e)}
    # the self-tests overwrote nothing (they use their own evidence dir); re-run the check so the evidence on disk
    # is the one of /repo, then extend it
    evp = os.path.join(facts.VERIF, "evidence", pid + ".json")
    ev = json.load(open(evp))
    ev["tier"] = "thorough"
    ev["coverage"]["selftest"] = {"cases": res, "failed": len(bad), "wall_s": round(time.time() - t0, 1),
                                  "meaning": "fire = seeded property-breaking variant must be reported by the named rule; "
                                             "silent = behaviour-preserving twin must not be reported"}
    if xref is not None:
        ev["coverage"]["cross_reference"] = xref
    ev["wall_s"] = round(ev.get("wall_s", 0) + time.time() - t0, 2)
    json.dump(ev, open(evp, "w"), indent=1)
    print("[%s] thorough: %d self-test case(s), %d failed; cross-reference: %s" % (
        pid, len(res), len(bad), (xref or {}).get("summary", xref)))
    if bad:
        for r in bad:
            print("SELFTEST-FAILED %s %s: %s" % (pid, r["case"], r["detail"]))
        return 2 if rc == 0 else rc
    return rc
