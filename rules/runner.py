import importlib
import json
import os
import sys
import time

import facts
import mir

CHECKS = ["C05", "C08", "C10", "C11", "C13", "C14", "C18", "C19", "C20"]


def load(config="default", want_clvmr=False, bins=False):
    main, clvmr, info = facts.produce(config, want_clvmr=want_clvmr)
    infos = [info]
    bins_path = None
    if bins:
        bins_path, _, binfo = facts.produce("bins")
        infos.append(binfo)
    prog = mir.load_program(main, bins_path)
    cprog = None
    if clvmr:
        cprog = mir.Program()
        cprog.add(json.load(open(clvmr)))
    return prog, cprog, infos


def main(argv):
    if not argv:
        print(__doc__ or "usage: check <ID>|dump|setup")
        return 2
    cmd = argv[0]
    tier = os.environ.get("VERIF_TIER", "quick")
    replay = None
    config = "default"
    rest = []
    i = 1
    while i < len(argv):
        if argv[i] == "--tier":
            tier = argv[i + 1]
            i += 2
        elif argv[i] == "--replay":
            replay = argv[i + 1]
            i += 2
        elif argv[i] == "--config":
            config = argv[i + 1]
            i += 2
        else:
            rest.append(argv[i])
            i += 1
    try:
        if cmd == "setup":
            facts.build_driver()
            for cfg in ("default", "ext", "bins"):
                _, _, info = facts.produce(cfg, want_clvmr=(cfg == "default"))
                print("facts", info)
            return 0
        if cmd == "dump":
            prog, cprog, _ = load(config, want_clvmr=("--clvmr" in rest))
            rest = [r for r in rest if r != "--clvmr"]
            pat = rest[0]
            for p in (cprog if cprog and pat.startswith("clvmr:") else prog).fns.values():
                pp = pat[6:] if pat.startswith("clvmr:") else pat
                if (pp[1:] == p.path) if pp.startswith("=") else (pp in p.path):
                    print(p.dump())
                    print()
            return 0
        if cmd == "selftest":
            import selftest
            return selftest.main(rest)
        if cmd.upper() in CHECKS:
            pid = cmd.upper()
            mod = importlib.import_module(pid.lower())
            return mod.run(tier=tier, replay=replay)
        print("unknown command", cmd)
        return 2
    except facts.ToolError as e:
        print("TOOL ERROR: %s" % e)
        return 2
