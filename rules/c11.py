"""C11 — every compile entry point derives the same options.

R11.a  sibling derivation: every site that feeds `compile_file` sets
       optimize / frontend_opt from the detected dialect by the same symbolic
       boolean expression (recovered from MIR);
R11.b  the flag given to the finalising classic optimiser is the same flag
       that entered those expressions;
R11.c  one library path: callers reach the compiler only through the sites;
R11.d  the classic path uses the same runner constructor and bootstrap program."""
import os

import runner
import inline
from defs import Defs
from flow import Flow
from mir import callee_of, op_const, op_int, op_local, op_place, rv_operands
from report import Report

PID = "C11"
SET_OPT = "compiler::comptypes::CompilerOpts::set_optimize"
SET_FE = "compiler::comptypes::CompilerOpts::set_frontend_opt"
SET_DIALECT = "compiler::comptypes::CompilerOpts::set_dialect"
DETECT = "compiler::dialect::detect_modern"
COMPILE_FILE = "compiler::compiler::compile_file"
FINALIZE = "compiler::optimize::maybe_finalize_program_via_classic_optimizer"
LIB_ENTRY = "classic::clvm_tools::clvmc::compile_clvm_text"
LIB_CORE = "classic::clvm_tools::clvmc::compile_clvm_text_maybe_opt"
CLI_NEW = "classic::clvm_tools::comp_input::RunAndCompileInputData::new"
CLI_COMPILE = "classic::clvm_tools::comp_input::RunAndCompileInputData::compile_modern"


class Sym:
    """Backward symbolic evaluation of a bool/int operand into a tiny expression
    language: ('const', v) ('leaf', kind, detail) (op, a, b) ('or'|'and', a, b) ('not', a)."""

    def __init__(self, fn, step_locals):
        self.fn = fn
        self.defs = Defs(fn)
        self.step_locals = step_locals   # locals known to hold detect_modern(..).stepping payload

    def operand(self, op, depth=0):
        c = op_const(op)
        if c is not None:
            if "bool" in c:
                return ("const", bool(c["bool"]))
            if "int" in c:
                return ("const", int(c["int"]))
            return ("leaf", "const?", c.get("ty", ""))
        p = op_place(op)
        if p is None:
            return ("leaf", "?", "")
        if self.is_step_place(p):
            return ("leaf", "STEP", "")
        if p["p"]:
            flds = [e["f"] for e in p["p"] if isinstance(e, dict) and "f" in e]
            return ("leaf", "FLAG", "_%d.%s" % (p["l"], ".".join(map(str, flds))))
        return self.local(p["l"], depth + 1)

    def is_step_place(self, p):
        flds = [str(e["f"]) for e in p["p"] if isinstance(e, dict) and "f" in e]
        if p["l"] in self.step_locals and not flds:
            return True
        return False

    def local(self, l, depth=0):
        fn = self.fn
        if depth > 12:
            return ("leaf", "deep", "")
        if l in self.step_locals:
            return ("leaf", "STEP", "")
        if 1 <= l <= fn.argc:
            return ("leaf", "FLAG", "param:%d" % l)
        ds = self.defs.whole_defs(l)
        if len(ds) == 1:
            d = ds[0]
            if d[0] == "call":
                t = d[2]
                return ("leaf", "FLAG", "call:%s@_%d" % ((callee_of(t) or "?").rsplit("::", 1)[-1], l))
            rv = d[3]["rv"]
            if rv["k"] == "use":
                return self.operand(rv["op"], depth + 1)
            if rv["k"] == "bin":
                return (rv["op"], self.operand(rv["a"], depth + 1), self.operand(rv["b"], depth + 1))
            if rv["k"] == "un" and rv["op"] == "Not":
                return ("not", self.operand(rv["a"], depth + 1))
            if rv["k"] == "cast":
                return self.operand(rv["op"], depth + 1)
            return ("leaf", "?", rv["k"])
        if len(ds) == 2 and all(d[0] == "stmt" for d in ds):
            # short-circuit diamond: one arm assigns a constant
            (b1, s1), (b2, s2) = [(d[1], d[3]) for d in ds]
            for (bc, sc), (bo, so) in (((b1, s1), (b2, s2)), ((b2, s2), (b1, s1))):
                c = op_const(sc["rv"].get("op")) if sc["rv"]["k"] == "use" else None
                if c is None or "bool" not in c:
                    continue
                # the switch that separates the two blocks
                for sb, blk in enumerate(fn.blocks):
                    t = blk["t"]
                    if t["k"] != "switch" or blk.get("cleanup"):
                        continue
                    arms = dict((v, g) for v, g in t["arms"])
                    if 0 not in arms:
                        continue
                    t_false, t_true = arms[0], t["otherwise"]
                    if t_false == t_true:
                        continue
                    from_true = fn.reachable(t_true, avoid=[t_false])
                    from_false = fn.reachable(t_false, avoid=[t_true])
                    cond = self.operand(t["discr"], depth + 1)
                    other = self.operand(so["rv"]["op"], depth + 1) if so["rv"]["k"] == "use" else \
                        self.rv(so["rv"], depth + 1)
                    if bc in from_true and bc not in from_false and bo in from_false and bo not in from_true:
                        # cond true -> constant
                        return ("or", cond, other) if c["bool"] else ("and", ("not", cond), other)
                    if bc in from_false and bc not in from_true and bo in from_true and bo not in from_false:
                        return ("and", cond, other) if not c["bool"] else ("or", ("not", cond), other)
        return ("leaf", "FLAG", "multi:_%d" % l)

    def rv(self, rv, depth):
        if rv["k"] == "bin":
            return (rv["op"], self.operand(rv["a"], depth + 1), self.operand(rv["b"], depth + 1))
        if rv["k"] == "un" and rv["op"] == "Not":
            return ("not", self.operand(rv["a"], depth + 1))
        return ("leaf", "?", rv["k"])


def simplify(e):
    """Boolean identities with constants: and(x,true)=x, and(x,false)=false, or(x,false)=x, or(x,true)=true, not(const)."""
    if not isinstance(e, tuple) or e[0] in ("const", "leaf"):
        return e
    if e[0] == "not":
        a = simplify(e[1])
        if a[0] == "const" and isinstance(a[1], bool):
            return ("const", not a[1])
        if a[0] == "not":
            return a[1]
        return ("not", a)
    if e[0] in ("or", "and"):
        a, b = simplify(e[1]), simplify(e[2])
        unit = e[0] == "and"          # and: true is neutral, false absorbs; or: false neutral, true absorbs
        for x, y in ((a, b), (b, a)):
            if x[0] == "const" and isinstance(x[1], bool):
                return y if x[1] == unit else ("const", x[1])
        return (e[0], a, b)
    return (e[0],) + tuple(simplify(x) if isinstance(x, tuple) else x for x in e[1:])


def normalise(e):
    """Canonical text; FLAG leaves are numbered by first occurrence, comparisons
    are oriented with STEP on the left."""
    seen = {}
    e = simplify(e)

    def go(x):
        if x[0] == "const":
            return str(x[1]).lower() if isinstance(x[1], bool) else str(x[1])
        if x[0] == "leaf":
            if x[1] == "STEP":
                return "STEP"
            key = x[2]
            if key not in seen:
                seen[key] = "FLAG%d" % len(seen)
            return seen[key]
        if x[0] == "not":
            return "not(%s)" % go(x[1])
        if x[0] in ("or", "and"):
            return "%s(%s,%s)" % (x[0], go(x[1]), go(x[2]))
        op, a, b = x
        flip = {"Lt": "Gt", "Le": "Ge", "Gt": "Lt", "Ge": "Le", "Eq": "Eq", "Ne": "Ne"}
        if b[0] == "leaf" and b[1] == "STEP" and not (a[0] == "leaf" and a[1] == "STEP") and op in flip:
            a, b, op = b, a, flip[op]
        return "%s(%s,%s)" % (op, go(a), go(b))
    return go(e), seen


def flag_leaves(e):
    out = []
    if e[0] == "leaf" and e[1] == "FLAG":
        out.append(e[2])
    elif e[0] not in ("const", "leaf"):
        for x in e[1:]:
            if isinstance(x, tuple):
                out.extend(flag_leaves(x))
    return out


def step_locals_of(f, fl):
    """Locals holding the `stepping` payload of a detect_modern result."""
    det = [t["dest"]["l"] for bb, t in f.calls() if callee_of(t) == DETECT]
    if not det:
        return set(), det
    dial = {x for x in fl.forward(det) if x >= 0 and "AcceptedDialect" in f.local_ty(x)
            and "CompilerOpts" not in f.local_ty(x)}      # dialect values (by type)
    out = set()
    for bb, i, s in f.stmts():
        for o in rv_operands(s["rv"]):
            p = op_place(o)
            if p and p["l"] in dial:
                flds = [str(e["f"]) for e in p["p"] if isinstance(e, dict) and "f" in e]
                if "stepping" in flds and "i32" in f.local_ty(s["pl"]["l"]):
                    out.add(s["pl"]["l"])
    # payload copies: (_x as Some).0 of a stepping option
    changed = True
    while changed:
        changed = False
        for bb, i, s in f.stmts():
            if s["pl"]["l"] in out or s["pl"]["p"]:
                continue
            if s["rv"]["k"] == "use" and "i32" in f.local_ty(s["pl"]["l"]):
                p = op_place(s["rv"]["op"])
                if p and p["l"] in out:
                    out.add(s["pl"]["l"])
                    changed = True
    return out, det


def run(tier="quick", replay=None):
    R = Report(PID, tier,
               "Sibling-derivation rule: the option-derivation sites (functions whose set_optimize / set_frontend_opt "
               "arguments depend on detect_modern(..).stepping and whose options reach compile_file) are discovered, their "
               "boolean arguments are recovered symbolically from MIR (short-circuit diamonds, comparisons, constants) and "
               "must be equal across sites; the finalising-optimiser flag must be the very flag inside those expressions; "
               "all other entry points must reach the compiler only through these sites; both classic paths must use the "
               "same runner constructor and bootstrap program. Siblings are compared with each other, never with a frozen "
               "expression.",
               "MIR symbolic boolean recovery + sibling comparison + call-graph who-may-call")
    prog, _, infos = runner.load("ext")
    R.facts_info = infos
    R.trusted = ["rustc MIR construction", "CHA call graph"]
    R.assumptions = ["equal options giving equal bytes is C05, not decided here", "printing of the result is C09 (not applicable)",
                     "wasm/src/api.rs cannot be built offline; it calls compile_clvm_inner, which is covered"]

    # ---------------- discover derivation sites ---------------------------------------
    sites = {}
    absorbed = {}       # private same-module helper -> functions it was inlined into
    views = {}

    def view(f0):
        """f0 with its private same-module helpers inlined (two levels): splitting an entry point into helpers, or folding
        helpers back, does not change the derivation the rules see."""
        if f0.path not in views:
            base = inline.default_pred(prog, f0)
            fv = inline.inlined(prog, f0, pred=lambda g: base(g) and g.parent == f0.parent and g.path != DETECT, depth=2)
            views[f0.path] = fv
            for h in fv.d.get("inlined", []):
                absorbed.setdefault(h, set()).add(f0.path)
        return views[f0.path]

    for f0 in list(prog.fns.values()):
        if f0.kind == "Closure" or not any(callee_of(t) == DETECT for _, t in f0.calls()):
            continue
        f = view(f0)
        calls = [(bb, t) for bb, t in f.calls() if (t.get("callee") or "") in (SET_OPT, SET_FE)]
        if not calls:
            continue
        fl = Flow(f)
        steps, det = step_locals_of(f, fl)
        if not det:
            continue
        sym = Sym(f, steps)
        exprs = {}
        for bb, t in calls:
            name = "optimize" if t["callee"] == SET_OPT else "frontend_opt"
            e = sym.operand(t["args"][1])
            # last setter on a path wins: keep the one not followed by another setter of the same kind
            later = [b2 for b2, t2 in calls if t2["callee"] == t["callee"] and b2 != bb and b2 in f.reachable(bb)]
            exprs.setdefault(name, []).append((bb, e, bool(later)))
        sites[f.path] = {"fn": f, "flow": fl, "exprs": exprs, "steps": steps}
    # shared derivation helpers: functions that call the setters with arguments built from their OWN parameters
    # (no detect_modern inside).  Each caller that owns a detect_modern result becomes a site whose expressions
    # are the helper's with the parameters replaced by the caller's argument expressions.
    helpers = {}
    for f in prog.fns.values():
        if f.path in sites or f.kind == "Closure" or f.path in absorbed:
            continue
        calls = [(bb, t) for bb, t in f.calls() if (t.get("callee") or "") in (SET_OPT, SET_FE)]
        if not calls or "HasCompilerOptsDelegation" in f.path or f.root.startswith("compiler::"):
            continue
        sym = Sym(f, set())
        hx = {}
        for bb, t in calls:
            name = "optimize" if t["callee"] == SET_OPT else "frontend_opt"
            hx.setdefault(name, []).append((bb, sym.operand(t["args"][1]), False))
        if any(flag_leaves(e) for lst in hx.values() for _, e, _ in lst):
            helpers[f.path] = hx

    def substitute(e, binding):
        if e[0] == "leaf" and e[1] == "FLAG" and e[2] in binding:
            return binding[e[2]]
        if e[0] in ("const", "leaf"):
            return e
        return (e[0],) + tuple(substitute(x, binding) if isinstance(x, tuple) else x for x in e[1:])

    for hpath, hx in helpers.items():
        for c, bb, t in prog.call_sites(lambda c: c == hpath):
            fl = Flow(c)
            steps, det = step_locals_of(c, fl)
            if not det:
                continue
            csym = Sym(c, steps)
            binding = {"param:%d" % (i + 1): csym.operand(a) for i, a in enumerate(t["args"])}
            exprs = {k: [(bb, substitute(e, binding), False) for _, e, _ in lst] for k, lst in hx.items()}
            ent = sites.setdefault(c.path, {"fn": c, "flow": fl, "exprs": {}, "steps": steps})
            for k, lst in exprs.items():
                # the helper call overrides earlier direct setters on the same path (last setter wins)
                prior = [(b0, e0, True) for b0, e0, _ in ent["exprs"].get(k, [])]
                ent["exprs"][k] = prior + lst
            ent["via_helper"] = hpath

    feeding = {}
    info_only = {}
    for path, st in sites.items():
        f = st["fn"]
        # does the configured opts value reach compile_file (directly, or through a struct field
        # read by a function that calls compile_file)?
        direct = any(callee_of(t) == COMPILE_FILE for _, t in f.calls())
        via_field = False
        for bb, i, s in f.stmts():
            rv = s["rv"]
            if rv["k"] == "agg" and rv.get("agg") == "adt" and "opts" in rv.get("fields", []):
                adt = rv["adt"]
                for g in prog.fns.values():
                    if any(callee_of(t) == COMPILE_FILE for _, t in g.calls()) and adt.rsplit("::", 1)[-1] in g.path:
                        via_field = (adt, g.path)
        if direct or via_field:
            feeding[path] = st
            st["via_field"] = via_field
        else:
            info_only[path] = st
    R.floor("R11.a", "option-derivation sites feeding compile_file", len(feeding), 2)
    for path in sorted(info_only):
        ex = {k: [normalise(e)[0] for _, e, _ in v] for k, v in info_only[path]["exprs"].items()}
        R.info("%s sets dialect-dependent flags %s but does not feed compile_file (informational)" % (path, ex))

    # ---------------- R11.a compare ----------------------------------------------------------
    finals = {}
    for path, st in sorted(feeding.items()):
        fin = {}
        for name, lst in st["exprs"].items():
            last = [x for x in lst if not x[2]] or lst
            # if several remain, prefer the one that mentions STEP
            withstep = [x for x in last if "STEP" in normalise(x[1])[0]]
            bb, e, _ = (withstep or last)[-1]
            fin[name] = (bb, e, normalise(e)[0])
        finals[path] = fin
    names = sorted({n for fin in finals.values() for n in fin})
    ref_path = sorted(finals)[0] if finals else None
    for name in names:
        forms = {p: finals[p].get(name, (None, None, "<not set>"))[2] for p in finals}
        distinct = sorted(set(forms.values()))
        for p in sorted(forms):
            f = feeding[p]["fn"]
            bb = finals[p].get(name, (0,))[0] or 0
            R.check(len(distinct) == 1, "R11.a", "R11.a|%s|%s" % (name, p), f.loc(bb),
                    "auto: set_%s(%s) — identical at all %d sites" % (name, forms[p], len(forms)),
                    "compile entry points derive `%s` differently from the dialect: %s. The same source would be compiled "
                    "with different optimiser settings depending on the tool used" % (
                        name, "; ".join("%s: %s" % (q.rsplit("::", 2)[-2] + "::" + q.rsplit("::", 1)[-1], forms[q]) for q in sorted(forms))),
                    fn=p)
        R.counts["set_" + name] = distinct

    # ---------------- R11.b the finalising flag is the same flag ---------------------------------
    for path, st in sorted(feeding.items()):
        f = st["fn"]
        fin = finals[path]
        opt_e = fin.get("optimize", (None, None, ""))[1]
        leaves = sorted(set(flag_leaves(opt_e))) if opt_e else []
        key = "R11.b|%s" % path
        if len(leaves) != 1:
            R.viol("R11.b", key, "%s:%s" % (f.file, f.line),
                   "cannot identify a single optimisation-request flag in %s's set_optimize expression (%s)" % (path, leaves), fn=path)
            continue
        leaf = leaves[0]
        if not st["via_field"]:
            fcalls = [(bb, t) for bb, t in f.calls() if callee_of(t) == FINALIZE]
            if not fcalls:
                R.viol("R11.b", key, "%s:%s" % (f.file, f.line), "%s compiles but never calls the finalising optimiser" % path, fn=path)
                continue
            sym = Sym(f, st["steps"])
            ok = True
            got = []
            for bb, t in fcalls:
                e = simplify(sym.operand(t["args"][3]))
                got.append(normalise(e)[0])
                if not (e[0] == "leaf" and e[1] == "FLAG" and e[2] == leaf):
                    ok = False
            R.check(ok, "R11.b", key, f.loc(fcalls[0][0]),
                    "auto: finalising optimiser receives the same flag (%s) that enters set_optimize" % leaf,
                    "%s finalises with flag %s but compiled with optimisation derived from %s: the program is compiled under "
                    "one setting and post-optimised under another" % (path, got, leaf), fn=path)
        else:
            adt, consumer = st["via_field"]
            # the struct literal stores the flag local in a field; the consumer passes that field to FINALIZE
            flag_field = None
            for bb, i, s in f.stmts():
                rv = s["rv"]
                if rv["k"] == "agg" and rv.get("adt") == adt:
                    sym = Sym(f, st["steps"])
                    for fld, o in zip(rv["fields"], rv["ops"]):
                        e = simplify(sym.operand(o))
                        if e[0] == "leaf" and e[1] == "FLAG" and e[2] == leaf:
                            flag_field = fld
            ok = False
            detail = "flag is not stored in %s" % adt
            if flag_field:
                detail = "stored in field .%s" % flag_field
                for g in prog.family(consumer):
                    for bb, t in g.calls():
                        if callee_of(t) == FINALIZE:
                            gfl = Flow(g)
                            al = op_local(t["args"][3])
                            flds = set()
                            for x in gfl.back_pure([gfl.node(op_place(t["args"][3]))]) if al is not None else []:
                                for b2, i2, s2 in g.stmts():
                                    if gfl.node(s2["pl"]) == x:
                                        for o in rv_operands(s2["rv"]):
                                            p = op_place(o)
                                            if p:
                                                flds |= {str(e["f"]) for e in p["p"] if isinstance(e, dict) and "f" in e}
                            # closures read the captured &self then the field
                            if flag_field in flds:
                                ok = True
                            detail += "; finaliser in %s reads fields %s" % (g.path, sorted(flds))
            R.check(ok, "R11.b", key, "%s:%s" % (f.file, f.line),
                    "auto: the flag entering set_optimize is stored in .%s and that field is what %s passes to the finalising optimiser" % (
                        flag_field, consumer),
                    "%s: the optimisation flag used for compiling is not the one given to the finalising optimiser (%s)" % (path, detail),
                    fn=path)

    # ---------------- R11.c one path ------------------------------------------------------------
    allowed_compile_callers = {p for p in feeding if not feeding[p]["via_field"]} | \
        {feeding[p]["via_field"][1] for p in feeding if feeding[p]["via_field"]}
    # helpers folded into a site count as that site, provided nobody else calls them
    callers = prog.callers()
    for h, into in absorbed.items():
        if into & allowed_compile_callers and all((c[0] in allowed_compile_callers or c[0] in absorbed) for c in callers.get(h, ())):
            allowed_compile_callers = allowed_compile_callers | {h}
    ncall = 0
    for f, bb, t in prog.call_sites(lambda c: c == COMPILE_FILE):
        ncall += 1
        R.check(f.root in allowed_compile_callers, "R11.c", "R11.c|compile_file|%s" % f.root, f.loc(bb),
                "auto: compile_file is called from an option-derivation site",
                "%s calls compile_file directly, bypassing the option derivation shared by the other entry points" % f.root, fn=f.root)
    R.floor("R11.c", "compile_file call sites", ncall, 2)
    lib = prog.fn(LIB_ENTRY)
    if lib is None:
        R.viol("R11.c", "R11.c|anchor-lost|compile_clvm_text", LIB_ENTRY, "anchor lost: library entry compile_clvm_text")
    else:
        ok = False
        for bb, t in lib.calls():
            if callee_of(t) == LIB_CORE:
                c = op_const(t["args"][1])
                ok = bool(c and c.get("bool") is True)
        R.check(ok, "R11.c", "R11.c|library-always-optimises", "%s:%s" % (lib.file, lib.line),
                "auto: compile_clvm_text passes the constant `true` as the optimisation request",
                "the library entry point no longer requests optimisation unconditionally: bindings and file-to-file compilation "
                "would emit different CLVM than `run -O`", fn=lib.path)
    for f, bb, t in prog.call_sites(lambda c: c == LIB_CORE):
        R.check(f.path == LIB_ENTRY, "R11.c", "R11.c|maybe_opt|%s" % f.path, f.loc(bb),
                "auto: only compile_clvm_text calls compile_clvm_text_maybe_opt",
                "%s calls compile_clvm_text_maybe_opt with its own optimisation flag" % f.path, fn=f.path)
    # bindings and file compilation go through compile_clvm_text
    for ent in ("classic::clvm_tools::clvmc::compile_clvm_inner", "classic::clvm_tools::clvmc::compile_clvm",
                "py::api::run_clvm_compilation"):
        g = prog.fn(ent)
        if g is None:
            R.info("%s not present in this configuration" % ent)
            continue
        reach = prog.reachable_fns([ent])
        via = LIB_ENTRY in reach
        other = [p for p in allowed_compile_callers if p in reach and p != LIB_CORE
                 and not (p in absorbed and absorbed[p] <= {LIB_CORE})]
        R.check(via and not other, "R11.c", "R11.c|entry|%s" % ent, "%s:%s" % (g.file, g.line),
                "auto: reaches the compiler only through compile_clvm_text",
                "%s reaches the compiler other than through compile_clvm_text (via compile_clvm_text=%s, other sites=%s)" % (ent, via, other),
                fn=ent)
    for ent in ("classic::clvm_tools::cmds::cldb", "classic::clvm_tools::cmds::launch_tool"):
        g = prog.fn(ent)
        if g is None:
            continue
        direct = {callee_of(t) for f2 in prog.family(ent) for _, t in f2.calls()} | {callee_of(t) for _, t in view(g).calls()}
        R.check(CLI_NEW in direct and CLI_COMPILE in direct and COMPILE_FILE not in direct and LIB_CORE not in direct,
                "R11.c", "R11.c|entry|%s" % ent, "%s:%s" % (g.file, g.line),
                "auto: derives options with RunAndCompileInputData::new and compiles with compile_modern",
                "%s no longer compiles modern programs through RunAndCompileInputData::{new, compile_modern}" % ent, fn=ent)

    # ---------------- R11.e siblings agree on the ambient integer-conversion mode -------------------
    GUARD_NEW = "compiler::clvm::NewStyleIntConversion::new"
    counts = {}
    for path, st in sorted(feeding.items()):
        fams = [path] + ([st["via_field"][1]] if st["via_field"] else [])
        n = 0
        for fp in fams:
            for g in prog.family(fp):
                n += sum(1 for _, t in g.calls() if callee_of(t) == GUARD_NEW)
        counts[path] = n
    vals = sorted(set(counts.values()))
    for path, n in sorted(counts.items()):
        R.check(len(vals) <= 1, "R11.e", "R11.e|int-mode-guard|%s" % path, path,
                "auto: installs the int-mode guard %d time(s) outside compile_file — the same at every site" % n,
                "compile entry points disagree on the integer-conversion mode around the post-compile steps (finalising "
                "optimiser, conversion to CLVM): guard installations per site %s. The same source is converted under "
                "different integer rules depending on the tool" % counts, fn=path)

    # ---------------- R11.f the search path reaches the compiler in the caller's order ----------------
    nsp = 0
    for f in sorted(prog.fns.values(), key=lambda f: f.path):
        for bb, t in f.calls():
            if (t.get("callee") or "") != "compiler::comptypes::CompilerOpts::set_search_paths":
                continue
            if f.root.startswith("compiler::") or "HasCompilerOptsDelegation" in f.root:
                continue     # delegating wrappers, not entry points
            nsp += 1
            fl = Flow(f)
            al = op_local(t["args"][1])
            src = fl.back([al]) if al is not None else set()
            bad = []
            for b2, t2 in f.calls():
                nm = (callee_of(t2) or "").rsplit("::", 1)[-1]
                if nm in ("sort", "sort_by", "sort_by_key", "sort_unstable", "sort_unstable_by", "sort_unstable_by_key",
                          "dedup", "dedup_by", "dedup_by_key", "reverse", "retain", "swap", "rotate_left", "rotate_right",
                          "truncate", "swap_remove", "rev") and t2["args"]:
                    rl = op_local(t2["args"][0])
                    if rl is not None and (rl in src or (fl.back([rl]) & src & {x for x in src if "String" in fl.ty(x) and "Vec" in fl.ty(x)})):
                        bad.append("%s at %s" % (callee_of(t2), f.loc(b2)))
            def producers_of(el):
                """Callees an element value is computed with, including the bodies of closures handed to combinators on the way."""
                out = set()
                for x in fl.back_pure([el]):
                    for _, tt in fl.call_defs.get(x, []):
                        out.add(callee_of(tt) or "")
                        for a in tt["args"]:
                            c = op_const(a)
                            cl = c.get("closure") if c else None
                            l = op_local(a)
                            if cl is None and l is not None:
                                for _, _, st in f.stmts():
                                    if st["pl"]["l"] == l and st["rv"]["k"] == "agg" and st["rv"].get("agg") == "closure":
                                        cl = st["rv"]["closure"]
                            if cl and cl in prog.fns:
                                out |= {(callee_of(t3) or "") for _, t3 in prog.fns[cl].calls()}
                return out
            # ... and without entries of its own: an element that comes from a path computation (the program's directory,
            # the current directory, an environment variable) makes this entry point search where the others do not
            PATHISH = ("Path::parent", "Path::new", "Path::file_name", "::current_dir", "env::var", "::canonicalize", "use_filename",
                       "Path::join", "PathBuf::push", "Path::to_str", "::dirname")
            psrc = fl.back_pure([al]) if al is not None else set()
            vec_src = {x for x in psrc if "Vec<std::string::String>" in fl.ty(x)}
            for b2, t2 in f.calls():
                nm = (callee_of(t2) or "").rsplit("::", 1)[-1]
                if nm in ("push", "insert", "extend", "append", "extend_from_slice", "push_front") and t2["args"]:
                    rl = op_local(t2["args"][0])
                    if rl is None or not (fl.back_pure([rl]) & vec_src):
                        continue
                    for a in t2["args"][1:]:
                        el = op_local(a)
                        if el is None:
                            continue
                        prods = producers_of(el)
                        hit = sorted(c for c in prods if any(k in c for k in PATHISH))
                        if hit:
                            bad.append("%s adds an entry computed with %s at %s" % (nm, hit[0].rsplit("::", 2)[-2] + "::" + hit[0].rsplit("::", 1)[-1], f.loc(b2)))
            # vec![x, ..] literals feeding the vector
            for x in vec_src:
                for b2, tt in fl.call_defs.get(x, []):
                    if (callee_of(tt) or "").rsplit("::", 1)[-1] in ("into_vec", "box_assume_init_into_vec_unsafe", "from_elem"):
                        # the literal's elements are written through the box pointer: array aggregates stored into an alias of it
                        box_l = op_local(tt["args"][0]) if tt["args"] else None
                        # pointers taken directly from the box (one or two copy/cast hops), not the whole alias closure
                        aliases = {box_l} if box_l is not None else set()
                        for _hop in range(3):
                            for _, _, st in f.stmts():
                                if not st["pl"]["p"] and st["rv"]["k"] in ("use", "cast", "rawptr", "ref"):
                                    for o in rv_operands(st["rv"]):
                                        pp = op_place(o)
                                        if not pp or "[std::string::String;" not in f.local_ty(pp["l"]) + f.local_ty(st["pl"]["l"]):
                                            continue
                                        if pp["l"] in aliases:
                                            aliases.add(st["pl"]["l"])
                                        elif st["pl"]["l"] in aliases:
                                            aliases.add(pp["l"])
                        prods = set()
                        for _, _, st in f.stmts():
                            if st["rv"]["k"] == "agg" and st["rv"].get("agg") == "array" and fl.node(st["pl"]) in aliases:
                                for o in st["rv"]["ops"]:
                                    ol = op_local(o)
                                    if ol is not None:
                                        prods |= producers_of(ol)
                        hit = sorted(c for c in prods if any(k in c for k in PATHISH))
                        if hit:
                            bad.append("a vec![..] literal holding an entry computed with %s at %s" % (hit[0].rsplit("::", 1)[-1], f.loc(b2)))
            R.check(not bad, "R11.f", "R11.f|search-paths|%s" % f.path, f.loc(bb),
                    "auto: the include search path is handed to the compiler without reordering or dropping entries",
                    "%s reorders, filters or extends the include search path before compiling (%s): the first-match include resolution then "
                    "differs from the other entry points given the same -i list" % (f.path, "; ".join(bad)), fn=f.path)
    R.floor("R11.f", "set_search_paths call sites in entry points", nsp, 2)

    # ---------------- R11.g every entry compiles the text it was given -------------------------------
    TEXT_PASS = ("deref", "as_str", "borrow", "as_ref", "clone", "to_string", "to_owned", "into", "from", "as_bytes",
                 "bytes", "as_mut", "deref_mut")
    ntext = 0
    for f, bb, t in prog.call_sites(lambda c: c == COMPILE_FILE):
        ntext += 1
        fl = Flow(f)
        l = op_local(t["args"][3]) if len(t["args"]) > 3 else None
        src = fl.back_pure([l]) if l is not None else set()
        rewrites = sorted({(callee_of(tt) or "?") for x in src for _, tt in fl.call_defs.get(x, [])
                           if (callee_of(tt) or "").rsplit("::", 1)[-1] not in TEXT_PASS})
        from_outside = [x for x in src if 1 <= x <= f.argc] or [x for x in src if x < 0]
        R.check(not rewrites and bool(from_outside), "R11.g", "R11.g|source-text|%s" % f.path, f.loc(bb),
                "auto: the source text reaches compile_file unchanged (borrows/copies of the entry's own input only)",
                "%s rewrites the source text before compiling it (%s): the same file then compiles to different CLVM through "
                "this entry point than through the others" % (f.path, rewrites or "text not derived from the entry's input"), fn=f.path)
    R.floor("R11.g", "compile_file call sites", ntext, 2)

    # ---------------- R11.d classic path ------------------------------------------------------------
    want = ("classic::clvm_tools::stages::stage_2::operators::run_program_for_search_paths", "classic::clvm_tools::stages::run")
    for ent in (LIB_CORE, "classic::clvm_tools::cmds::launch_tool"):
        g = prog.fn(ent)
        if g is None:
            R.viol("R11.d", "R11.d|anchor-lost|%s" % ent, ent, "anchor lost: %s" % ent)
            continue
        direct = {callee_of(t) for f2 in prog.family(ent) for _, t in f2.calls()} | {callee_of(t) for _, t in view(g).calls()}
        R.check(all(w in direct for w in want), "R11.d", "R11.d|%s" % ent, "%s:%s" % (g.file, g.line),
                "auto: classic programs are compiled with run_program_for_search_paths + the stage-2 `run` bootstrap",
                "%s builds the classic compiler differently (missing %s)" % (ent, [w for w in want if w not in direct]), fn=ent)
    return R.finalize()
