"""C10 — ill-scoped programs are rejected (presence of the four rejection
mechanisms on every path that reaches the corresponding accept/insert).

R10.a  guarded insert ("seen set" typestate) for inline recursion and duplicate
       assign bindings;
R10.b  redefinition guard before every add_defun / add_inline;
R10.c  strict-dialect unbound-identifier guard in the expression code generator;
R10.d  toposort deadlock is reported and propagated."""
import json
import os

import runner
from flow import Flow
from mir import callee_of, op_const, op_int, op_local, op_place, rv_operands
from paths import err_assign_blocks, follow_result, must_pass, ok_assign_blocks
from report import Report

PID = "C10"
VERIF = os.path.dirname(os.path.dirname(os.path.abspath(__file__)))

GUARDED_INSERT_FNS = [
    ("compiler::inline::replace_inline_body", "inline functions calling themselves directly or through each other"),
    ("compiler::frontend::handle_assign_form", "duplicate bindings in an assign form"),
]


def load_table():
    p = os.path.join(VERIF, "tables", "c10_exceptions.json")
    return json.load(open(p)) if os.path.exists(p) else {}


def root_of(f, fl, l):
    seen = set()
    while l is not None and l not in seen:
        seen.add(l)
        nxt = None
        for bb, i, s in f.stmts():
            if fl.node(s["pl"]) == l and not s["pl"]["p"] and s["rv"]["k"] in ("ref", "use", "cast"):
                for o in rv_operands(s["rv"]):
                    p = op_place(o)
                    if p:
                        nxt = fl.node(p)
        if nxt is None:
            return l
        l = nxt
    return l


def bool_edges(f, call_bb, t):
    """(true_target, false_target, switch_block) of the switch that tests a bool call result
    (directly or through one `!`)."""
    nb = t.get("target")
    if nb is None:
        return None
    blk = f.blocks[nb]
    tt = blk["t"]
    if tt["k"] != "switch":
        return None
    dl = op_local(tt["discr"])
    arms = dict((v, g) for v, g in tt["arms"])
    t_true, t_false = (tt["otherwise"] if 0 in arms else arms.get(1)), arms.get(0, tt["otherwise"])
    if dl == t["dest"]["l"]:
        return (t_true, t_false, nb)
    for s in blk["s"]:
        if s["pl"]["l"] == dl and s["rv"]["k"] == "un" and s["rv"]["op"] == "Not" and op_local(s["rv"]["a"]) == t["dest"]["l"]:
            return (t_false, t_true, nb)      # negated: the switch's false edge is the call's true result
    return None


def check_guarded_insert(prog, R, path, what):
    f = prog.fn(path)
    if f is None:
        R.viol("R10.a", "R10.a|anchor-lost|%s" % path, path, "anchor lost: %s" % path)
        return
    fl = Flow(f)
    inserts = [(bb, t) for bb, t in f.calls() if (callee_of(t) or "").endswith("HashSet::<T, S, A>::insert")
               or (callee_of(t) or "").endswith("HashSet::<T, S>::insert")]
    contains = [(bb, t) for bb, t in f.calls() if (callee_of(t) or "").endswith("::contains")
                and "HashSet" in (callee_of(t) or "")]
    errb = set(err_assign_blocks(f))
    okb = set(ok_assign_blocks(f))
    rets = f.return_blocks()
    n = 0
    for ibb, it in inserts:
        sroot = root_of(f, fl, op_local(it["args"][0]))
        sty = f.local_ty(sroot) if sroot is not None and sroot >= 0 else ""
        if "HashSet<std::vec::Vec<u8>>" not in sty:
            continue
        n += 1
        key = "R10.a|%s|insert@%s" % (path, f.local_name(sroot) or "set")
        guard = None
        for cbb, ct in contains:
            if root_of(f, fl, op_local(ct["args"][0])) != sroot:
                continue
            be = bool_edges(f, cbb, ct)
            if not be:
                continue
            true_t, false_t, swb = be
            # same value tested and inserted
            xi = fl.back_pure([fl.node(op_place(it["args"][1]))]) if op_place(it["args"][1]) else set()
            xc = fl.back_pure([fl.node(op_place(ct["args"][1]))]) if op_place(ct["args"][1]) else set()
            same = bool({x for x in xi & xc if x > 0 and (f.local_name(x) or x <= f.argc or True)} - {sroot})
            true_reach = f.reachable(true_t, avoid=[false_t])
            true_only_err = bool(true_reach & errb) and not (true_reach & okb) and ibb not in true_reach
            dominated = ibb in f.reachable(0) and ibb not in f.reachable(0, avoid_edges=[(swb, false_t)])
            if same and true_only_err and dominated:
                guard = (cbb, ct)
        if guard is None:
            # idiom `if !set.insert(x) { return Err(..) }`: insert reports presence itself
            be = bool_edges(f, ibb, it)
            if be:
                newly, present, swb = be
                present_reach = f.reachable(present, avoid=[newly])
                if (present_reach & errb) and not (present_reach & okb):
                    guard = (ibb, it)
        R.check(guard is not None, "R10.a", key, f.loc(ibb),
                "auto: insert is dominated by the false edge of contains() on the same set and value (or its own `already present` "
                "result is tested); that edge only returns Err",
                "%s inserts into its seen-set without first rejecting an element that is already present (%s would no longer be "
                "rejected; for inline functions the expansion would not terminate)" % (path, what), fn=path)
    R.floor("R10.a", "%s guarded inserts" % path.rsplit("::", 1)[-1], n, 1, path)
    return f, fl, inserts


def run(tier="quick", replay=None):
    R = Report(PID, tier,
               "Presence, on every path, of the four rejection mechanisms: (a) guarded insert typestate for the inline-"
               "recursion set (plus: the recursive expansion is dominated by the insert and the set is seeded with the root "
               "inline) and for duplicate assign bindings; (b) every add_defun/add_inline takes its payload from a Result chain "
               "that passed fail_if_present on BOTH the inline and the defun table; (c) in the expression code generator the "
               "quote-fallback for an unbound identifier is unreachable when dialect().strict && printable(..), and that case "
               "returns Err; (d) toposort returns its deadlock value when no progress is possible and hoist_assign_form "
               "propagates it. Decides presence of the mechanisms, not that every use position reaches them.",
               "MIR dominance / edge-polarity rules + combinator-chain analysis")
    prog, _, infos = runner.load("default")
    R.facts_info = infos
    table = load_table()
    R.trusted = ["rustc MIR construction", "tables/c10_exceptions.json"]
    R.assumptions = ["that every use position (macro output, evaluator paths) reaches these mechanisms is not decided",
                     "termination of the compiler in general is not decided"]

    # ---------------- R10.a ------------------------------------------------------------
    for path, what in GUARDED_INSERT_FNS:
        res = check_guarded_insert(prog, R, path, what)
        if res and path.endswith("replace_inline_body"):
            f, fl, inserts = res
            # the recursive expansion is dominated by the insert
            rec = [(bb, t) for bb, t in f.calls() if callee_of(t) == path]
            R.floor("R10.a", "recursive inline expansions", len(rec), 1, path)
            ins_blocks = [bb for bb, t in inserts if "HashSet<std::vec::Vec<u8>>" in f.local_ty(root_of(f, fl, op_local(t["args"][0])) or 0)]
            # the expansion that switches to another inline's body: its inline argument differs from ours
            for bb, t in rec:
                other_inline = False
                for a in t["args"]:
                    l = op_local(a)
                    if l is not None and "InlineFunction" in f.local_ty(l) and not (1 <= root_of(f, fl, l) <= f.argc):
                        other_inline = True
                if not other_inline:
                    continue
                ok = any(f.dominates(ib, bb) for ib in ins_blocks)
                R.check(ok, "R10.a", "R10.a|%s|recursion-after-insert" % path, f.loc(bb),
                        "auto: expanding a different inline's body is dominated by recording it in the visited set",
                        "replace_inline_body expands another inline function without first recording it as visited: mutually "
                        "recursive inline functions would expand forever", fn=path)
    # the recursion guard cannot be bypassed: in the Call arm of replace_inline_body every non-error return comes
    # after the inline-callable test (returning a call form unexpanded defers its inline calls to a later expansion
    # that starts from a fresh visited set)
    rib = prog.fn("compiler::inline::replace_inline_body")
    if rib is not None:
        gic = [bb for bb, t in rib.calls() if (callee_of(t) or "").endswith("inline::get_inline_callable")]
        errb_r = set(err_assign_blocks(rib))
        arm = None
        for sb, blk in enumerate(rib.blocks):
            tt = blk["t"]
            if tt["k"] != "switch" or blk.get("cleanup") or len(tt["arms"]) < 3:
                continue
            for v, tgt in tt["arms"]:
                others = [g for _, g in tt["arms"] if g != tgt] + ([tt["otherwise"]] if tt["otherwise"] != tgt else [])
                region = rib.reachable(tgt, avoid=others)
                uses_call = False
                for b2 in region:
                    for s2 in rib.blocks[b2]["s"]:
                        for o in rv_operands(s2["rv"]):
                            p = op_place(o)
                            if p and any(isinstance(e, dict) and e.get("dc") == "Call" for e in p["p"]):
                                uses_call = True
                if uses_call and any(g in region for g in gic):
                    arm = tgt
        R.floor("R10.a", "inline-callable tests in replace_inline_body", len(gic), 1, rib.path)
        if arm is None:
            R.viol("R10.a", "R10.a|anchor-lost|call-arm", rib.path, "anchor lost: the BodyForm::Call arm of replace_inline_body", fn=rib.path)
        else:
            bypass = rib.reachable(arm, avoid=set(gic) | errb_r) & set(rib.return_blocks())
            # blocks inside that set that actually assign the result
            R.check(not bypass, "R10.a", "R10.a|compiler::inline::replace_inline_body|guard-not-bypassed", rib.loc(arm),
                    "auto: every non-error return of the Call arm passes the inline-callable test (and with it the visited-set guard)",
                    "replace_inline_body can return a call form without testing whether it calls an inline function: calls left "
                    "inside are expanded later from a fresh visited set, so an inline cycle through such forms is never detected "
                    "(the compiler recurses until the stack overflows)", fn=rib.path)

    # the set is seeded with the root inline
    seed_fn = None
    for f2, bb, t in prog.call_sites(lambda c: c == "compiler::inline::replace_inline_body"):
        if f2.path == "compiler::inline::replace_inline_body":
            continue
        seed_fn = f2
        fl2 = Flow(f2)
        ins = [(b2, t2) for b2, t2 in f2.calls() if "HashSet" in (callee_of(t2) or "") and (callee_of(t2) or "").endswith("::insert")]
        vroot = root_of(f2, fl2, op_local(t["args"][0]))
        ok = any(root_of(f2, fl2, op_local(t2["args"][0])) == vroot and f2.dominates(b2, bb) for b2, t2 in ins)
        # or the set is a copy of an inherited (already seeded) set parameter
        if not ok and vroot is not None:
            def is_set_param(l):
                r = root_of(f2, fl2, l) if l is not None else None
                return r is not None and 1 <= r <= f2.argc and "HashSet<std::vec::Vec<u8>>" in f2.local_ty(r)
            # (b) the set IS a clone of the inherited set
            for b2, t2 in fl2.call_defs.get(vroot, []):
                if (callee_of(t2) or "").endswith("Clone>::clone") and t2["args"] and is_set_param(op_local(t2["args"][0])):
                    ok = True
            # (c) or it is refilled from the inherited set by a clone_from that dominates this expansion
            for b2, t2 in f2.calls():
                if (callee_of(t2) or "").endswith("::clone_from") and len(t2["args"]) == 2 and \
                        root_of(f2, fl2, op_local(t2["args"][0])) == vroot and is_set_param(op_local(t2["args"][1])) \
                        and f2.dominates(b2, bb) and b2 != bb:
                    ok = True
        R.check(ok, "R10.a", "R10.a|%s|seeded" % f2.path, f2.loc(bb),
                "auto: the visited set is seeded (insert dominates the first expansion, or it is a copy of the caller's set)",
                "%s starts inline expansion with an empty visited set: direct self-recursion of the root inline is not detected "
                "on its first level" % f2.path, fn=f2.path)
    R.floor("R10.a", "external callers of replace_inline_body", 1 if seed_fn else 0, 1)

    # ---------------- R10.b redefinition guard ------------------------------------------------
    nadd = 0
    for f in sorted(prog.fns.values(), key=lambda f: f.path):
        for bb, t in f.calls():
            c = callee_of(t) or ""
            if c not in ("compiler::comptypes::PrimaryCodegen::add_defun", "compiler::comptypes::PrimaryCodegen::add_inline"):
                continue
            nadd += 1
            which = c.rsplit("::", 1)[-1]
            key = "R10.b|%s|%s" % (f.path, which)
            guards = guards_before(prog, f)
            need = {"inlines", "defuns"}
            if need <= guards:
                R.ob("R10.b", key, f.loc(bb), "auto: payload comes from a Result chain that passed fail_if_present on .inlines and .defuns", fn=f.path)
            elif key in table:
                R.ob("R10.b", key, f.loc(bb), "table: %s — %s" % (table[key]["class"], table[key]["reason"]), fn=f.path)
            else:
                R.viol("R10.b", key, f.loc(bb),
                       "%s calls %s without the redefinition check on %s: two functions with the same name would silently "
                       "overwrite each other" % (f.path, which, sorted(need - guards)), fn=f.path)
    R.floor("R10.b", "add_defun/add_inline call sites", nadd, 3)

    # ---------------- R10.c strict unbound guard ---------------------------------------------------
    fam = prog.family("compiler::codegen::generate_expr_code")
    found = 0
    for g in fam:
        qblocks = []
        for bb, i, s in g.stmts():
            rv = s["rv"]
            if rv["k"] == "agg" and rv.get("adt") == "compiler::comptypes::BodyForm" and rv.get("variant") == "Quoted":
                # payload is an SExp::Atom built here
                l = op_local(rv["ops"][0])
                for b2, i2, s2 in g.stmts():
                    if s2["pl"]["l"] == l and s2["rv"]["k"] == "agg" and s2["rv"].get("variant") == "Atom":
                        qblocks.append(bb)
        if not qblocks:
            continue
        found += 1
        gfl = Flow(g)
        strict_false = []
        printable_false = []
        true_targets = []
        for sb, blk in enumerate(g.blocks):
            tt = blk["t"]
            if tt["k"] != "switch" or blk.get("cleanup"):
                continue
            dl = op_local(tt["discr"])
            arms = dict((v, x) for v, x in tt["arms"])
            if 0 not in arms:
                continue
            # strict: the bool is read from a `.strict` field
            is_strict = False
            is_printable = False
            for b2, i2, s2 in g.stmts():
                if s2["pl"]["l"] == dl and s2["rv"]["k"] == "use":
                    p = op_place(s2["rv"]["op"])
                    if p and any(isinstance(e, dict) and e.get("f") == "strict" for e in p["p"]):
                        is_strict = True
            p0 = op_place(tt["discr"])
            if p0 and any(isinstance(e, dict) and e.get("f") == "strict" for e in p0["p"]):
                is_strict = True
            for b2, t2 in gfl.call_defs.get(dl, []):
                if (callee_of(t2) or "").endswith("sexp::printable"):
                    is_printable = True
            if is_strict:
                strict_false.append((sb, arms[0]))
                true_targets.append(tt["otherwise"])
            if is_printable:
                printable_false.append((sb, arms[0]))
                true_targets.append(tt["otherwise"])
        key = "R10.c|%s" % g.path
        if not strict_false:
            R.viol("R10.c", key, "%s:%s" % (g.file, g.line),
                   "%s falls back to quoting an unbound identifier without testing dialect().strict: strict dialects would "
                   "silently compile a misspelt variable as a constant" % g.path, fn=g.path)
            continue
        reach = g.reachable(0, avoid_edges=strict_false + printable_false)
        fallback_blocked = not (set(qblocks) & reach)
        errb = set(err_assign_blocks(g))
        err_on_true = any(g.reachable(tg) & errb for tg in true_targets)
        R.check(fallback_blocked and err_on_true, "R10.c", key, g.loc(qblocks[0]),
                "auto: the quote-fallback is reachable only through the false edge of the strict test or of printable(); "
                "strict && printable returns Err",
                "%s: the quote-fallback for an unbound identifier is reachable with strict && printable (blocked=%s) or that "
                "case no longer returns an error (err=%s)" % (g.path, fallback_blocked, err_on_true), fn=g.path)
    R.floor("R10.c", "unbound-identifier fallback sites", found, 1, "compiler::codegen::generate_expr_code")

    # ---------------- R10.d deadlock reported ----------------------------------------------------------
    ts = prog.fn("util::toposort")
    if ts is None:
        R.viol("R10.d", "R10.d|anchor-lost|toposort", "util", "anchor lost: util::toposort")
    else:
        fl = Flow(ts)
        dl_param = None
        for i in range(1, ts.argc + 1):
            if (ts.local_name(i) or "") == "deadlock" or ts.local_ty(i) == "E":
                dl_param = i
        ok = False
        why = "no `Err(deadlock)` return found"
        deadlock_err_blocks = []
        if dl_param is not None:
            for bb, i, s in ts.stmts():
                rv = s["rv"]
                if s["pl"]["l"] == 0 and rv["k"] == "agg" and rv.get("variant") == "Err":
                    l = op_local(rv["ops"][0])
                    if l is not None and dl_param in fl.back_pure([l]):
                        deadlock_err_blocks.append(bb)
                        # reached through the true edge of an is_empty() test (no progress)
                        for cbb, ct in ts.calls():
                            if (callee_of(ct) or "").endswith("::is_empty"):
                                be = bool_edges(ts, cbb, ct)
                                if be and bb in ts.reachable(be[0], avoid=[be[1]]):
                                    # and the no-progress edge cannot continue the loop
                                    if cbb not in ts.reachable(be[0], avoid=[be[1]]):
                                        ok = True
                                    else:
                                        why = "the no-progress edge can continue the loop"
        R.check(ok, "R10.d", "R10.d|util::toposort|deadlock-returned", "%s:%s" % (ts.file, ts.line),
                "auto: when a round makes no progress toposort returns Err(deadlock) and leaves the loop",
                "util::toposort no longer reports a dependency cycle: " + why, fn=ts.path)
        # the sort loop runs until EVERY item is placed: its guard compares the loop counter itself (no offset) with the
        # number of items - with `counter + 1 < len` the last item's dependencies are never examined and a binding that
        # depends on itself is accepted
        guard_ok = False
        gwhy = "no loop guard comparing the progress counter with the number of items was found"
        counters = set()
        for _, _, st in ts.stmts():
            rv = st["rv"]
            if rv["k"] == "bin" and rv["op"].startswith("Add") and 1 in (op_int(rv["a"]), op_int(rv["b"])):
                src = op_local(rv["a"]) if op_local(rv["a"]) is not None else op_local(rv["b"])
                if src is not None and ts.local_ty(src) == "usize":
                    # x = x + 1 (through the checked-add tuple)
                    if src in fl.forward([st["pl"]["l"]]):
                        counters.add(src)
        for bbq, b in enumerate(ts.blocks):
            t = b["t"]
            if t["k"] != "switch" or b.get("cleanup"):
                continue
            dl = op_local(t["discr"])
            for st in b["s"]:
                rv = st["rv"]
                if st["pl"]["l"] == dl and rv["k"] == "bin" and rv["op"] in ("Lt", "Le", "Gt", "Ge", "Ne", "Eq"):
                    la, lb = op_local(rv["a"]), op_local(rv["b"])
                    if la is None or lb is None:
                        continue
                    a_len = bool(fl.derives_from_call(la, lambda c: c.endswith("::len")))
                    b_len = bool(fl.derives_from_call(lb, lambda c: c.endswith("::len")))
                    side = lb if a_len and not b_len else la if b_len and not a_len else None
                    if side is None:
                        continue
                    # is the other side a loop counter, and is it the counter itself?
                    def copies_of(l):
                        out = {l}
                        ch = True
                        while ch:
                            ch = False
                            for _, _, s3 in ts.stmts():
                                if s3["pl"]["l"] in out and not s3["pl"]["p"] and s3["rv"]["k"] == "use" and op_local(s3["rv"]["op"]) is not None \
                                        and not op_place(s3["rv"]["op"])["p"] and op_local(s3["rv"]["op"]) not in out:
                                    out.add(op_local(s3["rv"]["op"]))
                                    ch = True
                        return out
                    # only the loop that contains the no-progress test counts: its guard dominates the Err(deadlock) return
                    if not any(ts.dominates(bbq, eb) for eb in deadlock_err_blocks):
                        continue
                    if copies_of(side) & counters:
                        # in a loop? the block must reach itself
                        if bbq in ts.reachable_from_set(ts.succ(bbq)):
                            guard_ok = True
                    elif fl.back_pure([side]) & counters and bbq in ts.reachable_from_set(ts.succ(bbq)):
                        gwhy = "the loop guard compares an expression computed from the progress counter (an offset), not the counter itself, with the number of items"
        R.check(guard_ok, "R10.d", "R10.d|util::toposort|every-item-examined", "%s:%s" % (ts.file, ts.line),
                "auto: the sort loop continues while the progress counter itself is below the number of items",
                "util::toposort may stop before every item has been examined: " + gwhy +
                " - the dependencies of the item(s) left are never checked, so a self-dependent binding is accepted", fn=ts.path)
    for path in ("compiler::codegen::hoist_assign_form",):
        f = prog.fn(path)
        if f is None:
            R.viol("R10.d", "R10.d|anchor-lost|%s" % path, path, "anchor lost: %s" % path)
            continue
        calls = [(bb, t) for bb, t in f.calls() if callee_of(t) == "compiler::codegen::toposort_assign_bindings"]
        R.floor("R10.d", "toposort_assign_bindings calls in hoist_assign_form", len(calls), 1, path)
        errb = set(err_assign_blocks(f))
        for bb, t in calls:
            fr = follow_result(f, bb)
            ok = fr is not None and bool(f.reachable_from_set(fr["failure"]) & errb) and \
                not (f.reachable_from_set(fr["failure"]) & set(ok_assign_blocks(f)))
            R.check(ok, "R10.d", "R10.d|%s|propagates" % path, f.loc(bb),
                    "auto: the cycle error of toposort_assign_bindings is propagated",
                    "%s swallows the error of toposort_assign_bindings: cyclic assign bindings would be compiled in some order" % path,
                    fn=path)
    tab = prog.fn("compiler::codegen::toposort_assign_bindings")
    if tab is not None:
        ok = False
        for bb, t in tab.calls():
            if callee_of(t) == "util::toposort":
                # the deadlock argument is a CompileErr value built here
                l = op_local(t["args"][1])
                tflow = Flow(tab)
                if l is not None and any(s["rv"].get("adt", "").endswith("CompileErr") for x in tflow.back_pure([l])
                                         for _, _, s in tflow.agg_defs.get(x, [])):
                    ok = True
        R.check(ok, "R10.d", "R10.d|toposort_assign_bindings|deadlock-is-error", "%s:%s" % (tab.file, tab.line),
                "auto: passes a CompileErr as the deadlock value",
                "toposort_assign_bindings no longer passes a CompileErr as toposort's deadlock value", fn=tab.path)
    # ---------------- R10.e compile errors are not swallowed ---------------------------------------------
    # A rejection only works if the error reaches the caller.  Inventory: every place under compiler:: where a
    # Result<_, CompileErr> is consumed by an error-discarding combinator (ok / unwrap_or* / is_ok / is_err / map_or* / err).
    # Each is either a nested-Result flattening (the closure returns Err(e)) or a reviewed line of the table; a new one -
    # e.g. a candidate compilation in the optimiser whose failure is turned into "not an improvement" - is reported.
    SWALLOW = ("Result::<T, E>::ok", "Result::<T, E>::unwrap_or", "Result::<T, E>::unwrap_or_else", "Result::<T, E>::unwrap_or_default",
               "Result::<T, E>::is_ok", "Result::<T, E>::is_err", "Result::<T, E>::map_or", "Result::<T, E>::map_or_else", "Result::<T, E>::err")
    tbl = load_table()
    import re as _re
    nsw = 0
    ords = {}
    for g in sorted(prog.fns.values(), key=lambda g: [int(x) if x.isdigit() else x for x in _re.split(r"(\d+)", g.path)]):
        if not g.path.startswith("compiler::") or g.path.startswith("compiler::repl"):
            continue
        gfl = None
        for bb, t in g.calls():
            c = callee_of(t) or ""
            if not any(c.endswith(x) for x in SWALLOW):
                continue
            at = (t.get("arg_tys") or [""])[0]
            if "CompileErr" not in at:
                continue
            nsw += 1
            comb = c.rsplit("::", 1)[-1]
            gfl = gfl or Flow(g)
            rl = op_local(t["args"][0])
            prod_paths = sorted({(callee_of(tt) or "?") for x in (gfl.back_pure([rl]) if rl is not None else ())
                                 for _, tt in gfl.call_defs.get(x, []) if (tt.get("target_local") or tt.get("callee_local"))
                                 and not (callee_of(tt) or "").startswith("std::") and "CompileErr" in g.local_ty(tt["dest"]["l"])})
            # only results of the steps that PRODUCE code can carry a rejection (code generation, front end, preprocessing,
            # renaming, inlining); look-ups and probes (get_callable, dequote, ..) fail for reasons that are not rejections,
            # and whether they are consumed by `.ok()` or by `if let Ok(..)` is a matter of style
            REJECTING = ("compiler::codegen::", "compiler::frontend::", "compiler::compiler::compile", "compiler::preprocessor::",
                         "compiler::rename::", "compiler::inline::", "compiler::lambda::", "compiler::optimize::deinline::",
                         "compiler::compiler::DefaultCompilerOpts")
            PROBES = ("get_callable", "dequote", "lookup_", "is_", "first_of_alist", "get_inline_callable", "create_name_lookup")
            prod_paths = [c for c in prod_paths if any(c.startswith(m) or ("<" + m) in c for m in REJECTING)
                          and not any(c.rsplit("::", 1)[-1].startswith(pb) for pb in PROBES)]
            if not prod_paths and not (at.count("CompileErr") >= 2 and comb == "unwrap_or_else"):
                continue
            prods = sorted({c.rsplit("::", 1)[-1] for c in prod_paths})
            # flattening of Result<Result<T, E>, E>: the error is re-wrapped by the closure, not dropped
            flatten = at.count("CompileErr") >= 2 and comb == "unwrap_or_else"
            base = "R10.e|%s|%s|%s" % (g.root, comb, ",".join(prods) or "?")
            if flatten:
                R.ob("R10.e", base + "|flatten#%d" % nsw, g.loc(bb), "auto: unwrap_or_else flattens a nested Result (the error is passed on)", fn=g.path)
                continue
            ords[base] = ords.get(base, 0) + 1
            key = base if ords[base] == 1 else "%s#%d" % (base, ords[base])
            if key in tbl:
                R.ob("R10.e", key, g.loc(bb), "table: %s — %s" % (tbl[key]["class"], tbl[key]["reason"]), fn=g.path)
            else:
                R.viol("R10.e", key, g.loc(bb),
                       "%s discards the error of %s with %s(): a compile error (unbound name, recursive inline, redefinition ...) raised "
                       "there no longer rejects the program" % (g.path, "/".join(prods) or "a fallible step", comb), fn=g.path)
    R.counts["R10.e error-discarding combinators on CompileErr results"] = nsw
    # the same discard written as a pattern: the Result of a code-producing step is matched and its Err arm carries on
    # without returning an error (`if let Ok(c) = codegen(..) { .. } else { fallback }`)
    REJ = ("compiler::codegen::", "compiler::frontend::", "compiler::compiler::compile", "compiler::preprocessor::",
           "compiler::rename::", "compiler::inline::", "compiler::lambda::", "compiler::optimize::deinline::")
    PRB = ("get_callable", "dequote", "lookup_", "is_", "first_of_alist", "get_inline_callable", "create_name_lookup")
    npat = 0
    for g in sorted(prog.fns.values(), key=lambda g: g.path):
        if not g.path.startswith("compiler::") or g.path.startswith("compiler::repl"):
            continue
        errb = None
        for bb, t in g.calls():
            c = callee_of(t) or ""
            if not any(c.startswith(m) for m in REJ) or any(c.rsplit("::", 1)[-1].startswith(pb) for pb in PRB):
                continue
            if "CompileErr" not in g.local_ty(t["dest"]["l"]) or not g.local_ty(t["dest"]["l"]).startswith("std::result::Result"):
                continue
            fr = follow_result(g, bb)
            if fr is None or fr.get("via_try"):
                continue
            npat += 1
            if errb is None:
                errb = set(err_assign_blocks(g))
            fail_region = g.reachable_from_set(fr["failure"]) - g.reachable_from_set(fr["success"])   # the Err arm proper
            uses_err = False
            tl = fr.get("tested_local")
            for b2 in fail_region:
                for st in g.blocks[b2]["s"]:
                    for o in rv_operands(st["rv"]):
                        pp = op_place(o)
                        if pp and pp["l"] == tl and any(isinstance(e, dict) and e.get("dc") == "Err" for e in pp["p"]):
                            uses_err = True
            key = "R10.e|%s|match|%s" % (g.root, c.rsplit("::", 1)[-1])
            if key in tbl and not (bool(fail_region & errb) or uses_err):
                R.ob("R10.e", key, g.loc(bb), "table: %s — %s" % (tbl[key]["class"], tbl[key]["reason"]), fn=g.path)
                continue
            R.check(bool(fail_region & errb) or uses_err, "R10.e", key, g.loc(bb),
                    "auto: the Err arm returns an error or passes the error value on",
                    "%s matches the result of %s and carries on in the Err arm without using the error: a compile error raised there no "
                    "longer rejects the program" % (g.path, c), fn=g.path)
    R.counts["R10.e matched results of code-producing steps"] = npat
    return R.finalize()


def guards_before(prog, f):
    """Which PrimaryCodegen tables were checked with fail_if_present in the Result
    chain leading to closure/function f (siblings in the same combinator chain of
    the parent, or f itself)."""
    guards = set()

    def fields_checked(g):
        out = set()
        gfl = Flow(g)
        for bb, t in g.calls():
            if (callee_of(t) or "") == "compiler::codegen::fail_if_present":
                l = op_local(t["args"][1])
                for x in gfl.back_pure([gfl.node(op_place(t["args"][1]))]) if l is not None else []:
                    for b2, i2, s2 in g.stmts():
                        if gfl.node(s2["pl"]) == x:
                            for o in rv_operands(s2["rv"]):
                                p = op_place(o)
                                if p:
                                    for e in p["p"]:
                                        if isinstance(e, dict) and e.get("f") in ("inlines", "defuns", "constants"):
                                            out.add(e["f"])
        return out
    guards |= fields_checked(f)
    if f.kind == "Closure" and f.parent in prog.fns:
        par = prog.fns[f.parent]
        pfl = Flow(par)
        # find the combinator call that takes this closure, then walk the receiver chain backwards
        clos_local = None
        for bb, i, s in par.stmts():
            if s["rv"]["k"] == "agg" and s["rv"].get("agg") == "closure" and s["rv"]["closure"] == f.path:
                clos_local = s["pl"]["l"]
        start = None
        for bb, t in par.calls():
            for a in t["args"][1:]:
                if op_local(a) == clos_local and clos_local is not None:
                    start = t
                c = op_const(a)
                if c and c.get("closure") == f.path:
                    start = t
        seen = 0
        cur = start
        while cur is not None and seen < 12:
            seen += 1
            recv = op_local(cur["args"][0]) if cur["args"] else None
            if recv is None:
                break
            nxt = None
            for bb, t in pfl.call_defs.get(recv, []):
                name = (callee_of(t) or "").rsplit("::", 1)[-1]
                if name in ("and_then", "map", "map_err", "or_else"):
                    nxt = t
                    for a in t["args"][1:]:
                        cl = None
                        l = op_local(a)
                        if l is not None:
                            for b2, i2, s2 in par.stmts():
                                if s2["pl"]["l"] == l and s2["rv"]["k"] == "agg" and s2["rv"].get("agg") == "closure":
                                    cl = s2["rv"]["closure"]
                        c = op_const(a)
                        if c and "closure" in c:
                            cl = c["closure"]
                        if cl and cl in prog.fns:
                            guards |= fields_checked(prog.fns[cl])
            cur = nxt
    return guards
