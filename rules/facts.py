"""Fact production and loading: runs the mirfacts driver over /repo's current
working tree (content-addressed cache, so unchanged sources are not
re-analysed) and loads the JSON facts."""
import fcntl
import glob
import hashlib
import json
import os
import shutil
import subprocess
import sys
import time

VERIF = os.path.dirname(os.path.dirname(os.path.abspath(__file__)))
REPO = os.environ.get("VERIF_REPO", "/repo")
CACHE = os.path.join(VERIF, ".cache")
DRIVER_DIR = os.path.join(VERIF, "mirfacts")
DRIVER = os.path.join(DRIVER_DIR, "target", "release", "mirfacts")

HIR_ITEMS = [
    "classic::clvm::KW_PAIRS",
    "compiler::prims::prims",
]

CONFIGS = {
    # name: (cargo args, what it brings in)
    "default": ["--lib"],
    "ext": ["--lib", "--features", "extension-module"],
    "bins": ["--bins"],
}


class ToolError(Exception):
    pass


def _env():
    env = dict(os.environ)
    env["CARGO_NET_OFFLINE"] = "true"
    env.pop("RUSTUP_TOOLCHAIN", None)
    return env


def nightly_sysroot():
    out = subprocess.run(
        ["rustc", "+nightly", "--print", "sysroot"],
        capture_output=True, text=True, env=_env(), cwd=VERIF)
    if out.returncode != 0:
        raise ToolError("no nightly toolchain: " + out.stderr)
    return out.stdout.strip()


def build_driver():
    """Build the driver if its sources are newer than the binary."""
    srcs = glob.glob(os.path.join(DRIVER_DIR, "src", "*.rs")) + [
        os.path.join(DRIVER_DIR, "Cargo.toml")]
    if os.path.exists(DRIVER) and all(
            os.path.getmtime(s) <= os.path.getmtime(DRIVER) for s in srcs):
        return
    r = subprocess.run(
        ["cargo", "build", "--release", "--offline"],
        cwd=DRIVER_DIR, env=_env(), capture_output=True, text=True)
    if r.returncode != 0:
        raise ToolError("mirfacts driver failed to build:\n" + r.stderr[-4000:])


def _sha_file(p):
    h = hashlib.sha256()
    with open(p, "rb") as f:
        h.update(f.read())
    return h.hexdigest()


def source_key(repo=None, extra=""):
    repo = repo or REPO
    files = []
    for top in ("Cargo.toml", "Cargo.lock", "build.rs"):
        p = os.path.join(repo, top)
        if os.path.exists(p):
            files.append(p)
    for root, dirs, names in os.walk(os.path.join(repo, "src")):
        dirs.sort()
        for n in sorted(names):
            files.append(os.path.join(root, n))
    h = hashlib.sha256()
    for p in files:
        h.update(os.path.relpath(p, repo).encode())
        h.update(b"\0")
        h.update(_sha_file(p).encode())
        h.update(b"\n")
    h.update(_sha_file(DRIVER).encode() if os.path.exists(DRIVER) else b"nodriver")
    h.update(",".join(HIR_ITEMS).encode())
    h.update(extra.encode())
    return h.hexdigest()[:24]


def _prune(dirpath, keep=6):
    try:
        ents = sorted(
            (os.path.join(dirpath, e) for e in os.listdir(dirpath)),
            key=os.path.getmtime)
    except FileNotFoundError:
        return
    for e in ents[:-keep]:
        shutil.rmtree(e, ignore_errors=True)


def produce(config="default", repo=None, want_clvmr=False, log=None):
    """Return (path of chialisp facts json, path of clvmr facts or None, info).
    Facts are re-extracted whenever the content hash of the sources changed."""
    repo = repo or REPO
    os.makedirs(CACHE, exist_ok=True)
    lock = open(os.path.join(CACHE, "lock"), "w")
    fcntl.flock(lock, fcntl.LOCK_EX)
    try:
        build_driver()
        key = source_key(repo, config)
        outdir = os.path.join(CACHE, "facts", config, key)
        kind = "bin" if config == "bins" else "lib"
        main = os.path.join(outdir, "chialisp-%s.json" % kind)
        clvmr_key = hashlib.sha256(
            open(os.path.join(repo, "Cargo.lock"), "rb").read()
            + _sha_file(DRIVER).encode()).hexdigest()[:24]
        clvmr_dir = os.path.join(CACHE, "facts", "clvmr", clvmr_key)
        clvmr = os.path.join(clvmr_dir, "clvmr-lib.json")
        info = {"config": config, "key": key, "cached": True, "wall_s": 0.0}
        need_main = not os.path.exists(main)
        need_clvmr = want_clvmr and not os.path.exists(clvmr)
        if need_main or need_clvmr:
            t0 = time.time()
            info["cached"] = False
            target = os.path.join(CACHE, "target-" + config)
            # cargo's freshness cache would silently skip the wrapper: drop the
            # fingerprints of the crates whose facts we need.
            fp = os.path.join(target, "debug", ".fingerprint")
            pats = ["chialisp-*"] + (["clvmr-*"] if need_clvmr else [])
            for pat in pats:
                for d in glob.glob(os.path.join(fp, pat)):
                    shutil.rmtree(d, ignore_errors=True)
            stage = os.path.join(CACHE, "stage-%d" % os.getpid())
            shutil.rmtree(stage, ignore_errors=True)
            os.makedirs(stage)
            env = _env()
            env["LD_LIBRARY_PATH"] = os.path.join(nightly_sysroot(), "lib")
            env["RUSTFLAGS"] = "-Zmir-opt-level=0 -Awarnings"
            env["RUSTC_WRAPPER"] = DRIVER
            env["MIRFACTS_CRATES"] = "chialisp,clvmr,@primary"
            env["MIRFACTS_OUT"] = stage
            env["MIRFACTS_HIR"] = ",".join(HIR_ITEMS)
            env["CARGO_TARGET_DIR"] = target
            cmd = ["cargo", "+nightly", "check", "--offline"] + CONFIGS[config]
            r = subprocess.run(cmd, cwd=repo, env=env, capture_output=True, text=True)
            if r.returncode != 0:
                shutil.rmtree(stage, ignore_errors=True)
                raise ToolError(
                    "cargo check of %s failed (config %s); /repo does not compile "
                    "or the driver crashed:\n%s" % (repo, config, r.stderr[-6000:]))
            os.makedirs(outdir, exist_ok=True)
            produced = os.path.join(stage, "chialisp-%s.json" % kind)
            if config == "bins":
                # several bin targets; merge them into one file
                bins = sorted(glob.glob(os.path.join(stage, "*-bin.json")))
                merged = {"crate": "bins", "functions": [], "statics": [], "consts": [],
                          "adts": [], "impls": [], "hir": {}}
                for b in bins:
                    d = json.load(open(b))
                    for k in ("functions", "statics", "consts", "adts", "impls"):
                        for it in d[k]:
                            if isinstance(it, dict) and "path" in it:
                                it["bin"] = d["crate"]
                        merged[k].extend(d[k])
                json.dump(merged, open(produced, "w"))
            if need_main:
                if not os.path.exists(produced):
                    shutil.rmtree(stage, ignore_errors=True)
                    raise ToolError("driver ran but wrote no facts for chialisp "
                                    "(cargo skipped the wrapper?)")
                shutil.move(produced, main)
            pc = os.path.join(stage, "clvmr-lib.json")
            if need_clvmr:
                if not os.path.exists(pc):
                    shutil.rmtree(stage, ignore_errors=True)
                    raise ToolError("driver wrote no facts for clvmr")
                os.makedirs(clvmr_dir, exist_ok=True)
                shutil.move(pc, clvmr)
            shutil.rmtree(stage, ignore_errors=True)
            _prune(os.path.join(CACHE, "facts", config))
            info["wall_s"] = round(time.time() - t0, 2)
        else:
            os.utime(outdir, None)
        if not os.path.exists(main):
            raise ToolError("facts missing after extraction: " + main)
        return main, (clvmr if want_clvmr else None), info
    finally:
        fcntl.flock(lock, fcntl.LOCK_UN)
        lock.close()


def load(path, prefix=None):
    with open(path) as f:
        d = json.load(f)
    return d
