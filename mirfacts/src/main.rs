// mirfacts: a rustc_private driver that dumps the type-checked program (MIR at
// opt-level 0 with resolved callees, statics, ADTs, trait impls and selected
// HIR initialiser expressions) as JSON facts for the rule engine in /verif/rules.
//
// It is run as RUSTC_WRAPPER under `cargo +nightly check`; for crates not named
// in MIRFACTS_CRATES it behaves exactly like rustc.
#![feature(rustc_private)]
#![feature(box_patterns)]
extern crate rustc_abi;
extern crate rustc_ast;
extern crate rustc_driver;
extern crate rustc_hir;
extern crate rustc_interface;
extern crate rustc_middle;
extern crate rustc_session;
extern crate rustc_span;

mod json;
use json::J;

use rustc_driver::Compilation;
use rustc_hir as hir;
use rustc_hir::def::DefKind;
use rustc_hir::def_id::{DefId, LOCAL_CRATE};
use rustc_interface::interface::Compiler;
use rustc_middle::mir::interpret::{GlobalAlloc, Scalar};
use rustc_middle::mir::{
    AggregateKind, AssertKind, BasicBlock, Body, Const, ConstValue, Operand, Place, PlaceElem,
    Rvalue, StatementKind, TerminatorKind, UnwindAction, VarDebugInfoContents,
};
use rustc_middle::ty::print::with_no_trimmed_paths;
use rustc_middle::ty::{self, Ty, TyCtxt, TypingEnv};
use rustc_span::Span;

struct Cb;

fn s(x: impl Into<String>) -> J {
    J::Str(x.into())
}

fn obj(v: Vec<(&str, J)>) -> J {
    J::Obj(v.into_iter().map(|(k, v)| (k.to_string(), v)).collect())
}

fn dbg<T: std::fmt::Debug>(x: &T) -> J {
    s(format!("{:?}", x))
}

struct Cx<'tcx> {
    tcx: TyCtxt<'tcx>,
}

impl<'tcx> Cx<'tcx> {
    fn span_info(&self, sp: Span) -> (String, usize, String) {
        let sm = self.tcx.sess.source_map();
        let exp = if sp.from_expansion() {
            // innermost first: e.g. "macro:panic<macro:assert<macro:debug_assert"
            let mut parts: Vec<String> = Vec::new();
            for ed in sp.macro_backtrace() {
                match ed.kind {
                    rustc_span::ExpnKind::Macro(_, name) => parts.push(format!("macro:{}", name)),
                    rustc_span::ExpnKind::Desugaring(k) => parts.push(format!("desugar:{:?}", k)),
                    rustc_span::ExpnKind::AstPass(k) => parts.push(format!("astpass:{:?}", k)),
                    rustc_span::ExpnKind::Root => {}
                }
            }
            if parts.is_empty() {
                let ed = sp.ctxt().outer_expn_data();
                match ed.kind {
                    rustc_span::ExpnKind::Desugaring(k) => parts.push(format!("desugar:{:?}", k)),
                    _ => parts.push("expansion".to_string()),
                }
            }
            parts.join("<")
        } else {
            String::new()
        };
        let cs = sp.source_callsite();
        let loc = sm.lookup_char_pos(cs.lo());
        let fname = match &loc.file.name {
            rustc_span::FileName::Real(r) => match r.local_path() {
                Some(p) => p.to_string_lossy().to_string(),
                None => format!("{:?}", r),
            },
            other => format!("{:?}", other),
        };
        (fname, loc.line, exp)
    }

    fn ty_str(&self, t: Ty<'tcx>) -> String {
        format!("{}", t)
    }

    fn path(&self, d: DefId) -> String {
        self.tcx.def_path_str(d)
    }

    fn place(&self, body: &Body<'tcx>, p: &Place<'tcx>) -> J {
        let tcx = self.tcx;
        let mut proj = Vec::new();
        let mut pty = rustc_middle::mir::PlaceTy::from_ty(body.local_decls[p.local].ty);
        for elem in p.projection.iter() {
            let j = match elem {
                PlaceElem::Deref => s("*"),
                PlaceElem::Field(f, _) => {
                    let mut name = format!("{}", f.index());
                    let mut owner = String::new();
                    if let ty::Adt(adt, _) = pty.ty.kind() {
                        let vidx = pty.variant_index.unwrap_or(rustc_abi::FIRST_VARIANT);
                        if adt.is_enum() || adt.is_struct() || adt.is_union() {
                            if let Some(v) = adt.variants().get(vidx) {
                                if let Some(fd) = v.fields.get(f) {
                                    name = fd.name.to_string();
                                }
                                owner = self.path(adt.did());
                                if adt.is_enum() {
                                    owner = format!("{}::{}", owner, v.name);
                                }
                            }
                        }
                    }
                    obj(vec![("f", s(name)), ("of", s(owner))])
                }
                PlaceElem::Downcast(name, vidx) => {
                    let n = match name {
                        Some(n) => n.to_string(),
                        None => format!("{}", vidx.index()),
                    };
                    obj(vec![("dc", s(n))])
                }
                PlaceElem::Index(l) => obj(vec![("idx", J::Num(l.index() as i128))]),
                PlaceElem::ConstantIndex {
                    offset,
                    min_length,
                    from_end,
                } => obj(vec![
                    ("cidx", J::Num(offset as i128)),
                    ("min", J::Num(min_length as i128)),
                    ("from_end", J::Bool(from_end)),
                ]),
                PlaceElem::Subslice { from, to, from_end } => obj(vec![
                    ("sub_from", J::Num(from as i128)),
                    ("sub_to", J::Num(to as i128)),
                    ("from_end", J::Bool(from_end)),
                ]),
                other => obj(vec![("other", dbg(&other))]),
            };
            proj.push(j);
            pty = pty.projection_ty(tcx, elem);
        }
        obj(vec![
            ("l", J::Num(p.local.index() as i128)),
            ("p", J::Arr(proj)),
        ])
    }

    fn const_val(&self, owner: DefId, c: &Const<'tcx>, sp: Span) -> J {
        let tcx = self.tcx;
        let tenv = TypingEnv::post_analysis(tcx, owner);
        let ty = c.ty();
        let mut fields: Vec<(&str, J)> = vec![("ty", s(self.ty_str(ty)))];
        if let ty::FnDef(did, gargs) = ty.kind() {
            fields.push(("fn", s(self.path(*did))));
            fields.push(("fn_full", s(tcx.def_path_str_with_args(*did, gargs))));
            if let Ok(Some(inst)) = ty::Instance::try_resolve(tcx, tenv, *did, gargs) {
                fields.push(("fn_target", s(self.path(inst.def_id()))));
            }
            return obj(fields);
        }
        if let ty::Closure(did, _) = ty.kind() {
            fields.push(("closure", s(self.path(*did))));
            return obj(fields);
        }
        if let Const::Unevaluated(uv, _) = c {
            fields.push(("uneval", s(self.path(uv.def))));
            if let Some(p) = uv.promoted {
                fields.push(("promoted", J::Num(p.index() as i128)));
            }
        }
        // Scalars first (ints, bools, chars), guarded by type to avoid ICEs.
        let is_scalar_ty = ty.is_integral() || ty.is_bool() || ty.is_char();
        if is_scalar_ty {
            if let Some(si) = c.try_eval_scalar_int(tcx, tenv) {
                let size = si.size();
                let bits = si.to_bits(size);
                let v: i128 = if ty.is_signed() {
                    size.sign_extend(bits)
                } else {
                    bits as i128
                };
                if ty.is_bool() {
                    fields.push(("bool", J::Bool(bits != 0)));
                }
                // u128 values above i128::MAX are emitted as strings
                if !ty.is_signed() && bits > i128::MAX as u128 {
                    fields.push(("int", s(format!("{}", bits))));
                } else {
                    fields.push(("int", J::Num(v)));
                }
                return obj(fields);
            }
        }
        match c.eval(tcx, tenv, sp) {
            Ok(cv) => {
                match cv {
                    ConstValue::Scalar(Scalar::Ptr(ptr, _)) => {
                        let aid = ptr.provenance.alloc_id();
                        match tcx.try_get_global_alloc(aid) {
                            Some(GlobalAlloc::Static(did)) => {
                                fields.push(("static", s(self.path(did))));
                            }
                            Some(GlobalAlloc::Function { instance }) => {
                                fields.push(("fnptr", s(self.path(instance.def_id()))));
                            }
                            Some(GlobalAlloc::Memory(alloc)) => {
                                let a = alloc.inner();
                                let n = a.len();
                                if n <= 64 && a.provenance().ptrs().is_empty() {
                                    let bytes = a
                                        .inspect_with_uninit_and_ptr_outside_interpreter(0..n);
                                    fields.push((
                                        "mem",
                                        J::Arr(
                                            bytes.iter().map(|b| J::Num(*b as i128)).collect(),
                                        ),
                                    ));
                                }
                            }
                            _ => {}
                        }
                    }
                    ConstValue::Slice { .. } => {
                        if let Some(bytes) = cv.try_get_slice_bytes_for_diagnostics(tcx) {
                            if ty.peel_refs().is_str() {
                                fields.push(("str", s(String::from_utf8_lossy(bytes).to_string())));
                            }
                            fields.push((
                                "bytes",
                                J::Arr(bytes.iter().map(|b| J::Num(*b as i128)).collect()),
                            ));
                        }
                    }
                    ConstValue::ZeroSized => {
                        fields.push(("zst", J::Bool(true)));
                    }
                    _ => {}
                }
            }
            Err(_) => {
                fields.push(("eval_err", J::Bool(true)));
            }
        }
        fields.push(("dbg", s(format!("{}", c))));
        obj(fields)
    }

    fn operand(&self, owner: DefId, body: &Body<'tcx>, o: &Operand<'tcx>) -> J {
        match o {
            Operand::Copy(p) => obj(vec![("k", s("copy")), ("pl", self.place(body, p))]),
            Operand::Move(p) => obj(vec![("k", s("move")), ("pl", self.place(body, p))]),
            Operand::Constant(c) => obj(vec![
                ("k", s("const")),
                ("c", self.const_val(owner, &c.const_, c.span)),
            ]),
            #[allow(unreachable_patterns)]
            other => obj(vec![("k", s("other")), ("dbg", dbg(other))]),
        }
    }

    fn rvalue(&self, owner: DefId, body: &Body<'tcx>, rv: &Rvalue<'tcx>) -> J {
        let tcx = self.tcx;
        match rv {
            Rvalue::Use(o, ..) => obj(vec![("k", s("use")), ("op", self.operand(owner, body, o))]),
            Rvalue::Ref(_, bk, p) => obj(vec![
                ("k", s("ref")),
                ("mut", J::Bool(matches!(bk, rustc_middle::mir::BorrowKind::Mut { .. }))),
                ("pl", self.place(body, p)),
            ]),
            Rvalue::RawPtr(k, p) => obj(vec![
                ("k", s("rawptr")),
                ("kind", dbg(k)),
                ("pl", self.place(body, p)),
            ]),
            Rvalue::CopyForDeref(p) => obj(vec![
                ("k", s("use")),
                ("op", obj(vec![("k", s("copy")), ("pl", self.place(body, p))])),
            ]),
            Rvalue::ThreadLocalRef(d) => obj(vec![("k", s("tlsref")), ("static", s(self.path(*d)))]),
            Rvalue::Cast(kind, o, t) => obj(vec![
                ("k", s("cast")),
                ("kind", dbg(kind)),
                ("op", self.operand(owner, body, o)),
                ("ty", s(self.ty_str(*t))),
            ]),
            Rvalue::BinaryOp(op, box (a, b)) => obj(vec![
                ("k", s("bin")),
                ("op", dbg(op)),
                ("a", self.operand(owner, body, a)),
                ("b", self.operand(owner, body, b)),
            ]),
            Rvalue::UnaryOp(op, a) => obj(vec![
                ("k", s("un")),
                ("op", dbg(op)),
                ("a", self.operand(owner, body, a)),
            ]),
            Rvalue::Discriminant(p) => obj(vec![("k", s("discr")), ("pl", self.place(body, p))]),
            Rvalue::Repeat(o, n) => obj(vec![
                ("k", s("repeat")),
                ("op", self.operand(owner, body, o)),
                ("n", s(format!("{}", n))),
            ]),
            Rvalue::Aggregate(box kind, ops) => {
                let mut f: Vec<(&str, J)> = vec![("k", s("agg"))];
                match kind {
                    AggregateKind::Array(t) => {
                        f.push(("agg", s("array")));
                        f.push(("elem_ty", s(self.ty_str(*t))));
                    }
                    AggregateKind::Tuple => f.push(("agg", s("tuple"))),
                    AggregateKind::Adt(did, vidx, _, _, _) => {
                        f.push(("agg", s("adt")));
                        f.push(("adt", s(self.path(*did))));
                        let adt = tcx.adt_def(*did);
                        let v = adt.variant(*vidx);
                        f.push(("variant", s(v.name.to_string())));
                        f.push((
                            "fields",
                            J::Arr(v.fields.iter().map(|fd| s(fd.name.to_string())).collect()),
                        ));
                    }
                    AggregateKind::Closure(did, _) => {
                        f.push(("agg", s("closure")));
                        f.push(("closure", s(self.path(*did))));
                    }
                    other => {
                        f.push(("agg", s("other")));
                        f.push(("dbg", dbg(other)));
                    }
                }
                f.push((
                    "ops",
                    J::Arr(ops.iter().map(|o| self.operand(owner, body, o)).collect()),
                ));
                obj(f)
            }
            other => obj(vec![("k", s("other")), ("dbg", dbg(other))]),
        }
    }

    fn bb(&self, b: BasicBlock) -> J {
        J::Num(b.index() as i128)
    }

    fn unwind(&self, u: &UnwindAction) -> J {
        match u {
            UnwindAction::Cleanup(b) => self.bb(*b),
            _ => J::Null,
        }
    }

    fn function(&self, did: DefId) -> J {
        let tcx = self.tcx;
        let body = tcx.optimized_mir(did);
        let kind = tcx.def_kind(did);
        let (file, line, _) = self.span_info(tcx.def_span(did));
        let mut f: Vec<(&str, J)> = vec![
            ("path", s(self.path(did))),
            ("kind", dbg(&kind)),
            ("file", s(file)),
            ("line", J::Num(line as i128)),
            ("argc", J::Num(body.arg_count as i128)),
        ];
        if matches!(kind, DefKind::Fn | DefKind::AssocFn) {
            f.push(("vis", s(format!("{:?}", tcx.visibility(did)))));
        }
        if let Some(p) = tcx.opt_parent(did) {
            f.push(("parent", s(self.path(p))));
            f.push(("parent_kind", dbg(&tcx.def_kind(p))));
        }
        // typeck root for closures: the enclosing fn
        let root = tcx.typeck_root_def_id(did);
        if root != did {
            f.push(("root", s(self.path(root))));
        }
        // locals
        let mut names: Vec<Option<String>> = vec![None; body.local_decls.len()];
        let mut upvars: Vec<J> = Vec::new();
        for vdi in body.var_debug_info.iter() {
            if let VarDebugInfoContents::Place(p) = &vdi.value {
                if p.projection.is_empty() {
                    if names[p.local.index()].is_none() {
                        names[p.local.index()] = Some(vdi.name.to_string());
                    }
                } else {
                    upvars.push(obj(vec![
                        ("name", s(vdi.name.to_string())),
                        ("pl", self.place(body, p)),
                    ]));
                }
            }
        }
        let locals: Vec<J> = body
            .local_decls
            .iter_enumerated()
            .map(|(l, d)| {
                let mut v = vec![("ty", s(self.ty_str(d.ty)))];
                if let Some(n) = &names[l.index()] {
                    v.push(("n", s(n.clone())));
                }
                if d.mutability.is_mut() {
                    v.push(("m", J::Bool(true)));
                }
                obj(v)
            })
            .collect();
        f.push(("locals", J::Arr(locals)));
        f.push(("upvars", J::Arr(upvars)));

        let mut blocks = Vec::new();
        for (_bb, data) in body.basic_blocks.iter_enumerated() {
            let mut stmts = Vec::new();
            for st in data.statements.iter() {
                match &st.kind {
                    StatementKind::Assign(box (pl, rv)) => {
                        let (_, line, exp) = self.span_info(st.source_info.span);
                        let mut v = vec![
                            ("pl", self.place(body, pl)),
                            ("rv", self.rvalue(did, body, rv)),
                            ("line", J::Num(line as i128)),
                        ];
                        if !exp.is_empty() {
                            v.push(("exp", s(exp)));
                        }
                        stmts.push(obj(v));
                    }
                    StatementKind::SetDiscriminant {
                        place,
                        variant_index,
                    } => {
                        stmts.push(obj(vec![
                            ("pl", self.place(body, place)),
                            (
                                "rv",
                                obj(vec![
                                    ("k", s("setdiscr")),
                                    ("variant", J::Num(variant_index.index() as i128)),
                                ]),
                            ),
                        ]));
                    }
                    _ => {}
                }
            }
            let term = data.terminator();
            let (tfile, tline, texp) = self.span_info(term.source_info.span);
            let mut t: Vec<(&str, J)> = vec![("line", J::Num(tline as i128))];
            if tfile != "" {
                t.push(("file", s(tfile)));
            }
            if !texp.is_empty() {
                t.push(("exp", s(texp)));
            }
            match &term.kind {
                TerminatorKind::Goto { target } => {
                    t.push(("k", s("goto")));
                    t.push(("target", self.bb(*target)));
                }
                TerminatorKind::SwitchInt { discr, targets } => {
                    t.push(("k", s("switch")));
                    t.push(("discr", self.operand(did, body, discr)));
                    t.push(("discr_ty", s(self.ty_str(discr.ty(&body.local_decls, tcx)))));
                    let mut arms = Vec::new();
                    for (v, b) in targets.iter() {
                        arms.push(J::Arr(vec![J::Num(v as i128), self.bb(b)]));
                    }
                    t.push(("arms", J::Arr(arms)));
                    t.push(("otherwise", self.bb(targets.otherwise())));
                }
                TerminatorKind::Return => t.push(("k", s("return"))),
                TerminatorKind::Unreachable => t.push(("k", s("unreachable"))),
                TerminatorKind::UnwindResume => t.push(("k", s("resume"))),
                TerminatorKind::UnwindTerminate(_) => t.push(("k", s("terminate"))),
                TerminatorKind::Drop {
                    place,
                    target,
                    unwind,
                    ..
                } => {
                    t.push(("k", s("drop")));
                    t.push(("pl", self.place(body, place)));
                    t.push((
                        "pl_ty",
                        s(self.ty_str(place.ty(&body.local_decls, tcx).ty)),
                    ));
                    t.push(("target", self.bb(*target)));
                    t.push(("unwind", self.unwind(unwind)));
                }
                TerminatorKind::Assert {
                    cond,
                    expected,
                    msg,
                    target,
                    unwind,
                } => {
                    t.push(("k", s("assert")));
                    t.push(("cond", self.operand(did, body, cond)));
                    t.push(("expected", J::Bool(*expected)));
                    let (mk, extra): (&str, Vec<(&str, J)>) = match &**msg {
                        AssertKind::BoundsCheck { len, index } => (
                            "BoundsCheck",
                            vec![
                                ("len", self.operand(did, body, len)),
                                ("index", self.operand(did, body, index)),
                            ],
                        ),
                        AssertKind::Overflow(op, a, b) => (
                            "Overflow",
                            vec![
                                ("op", dbg(op)),
                                ("a", self.operand(did, body, a)),
                                ("b", self.operand(did, body, b)),
                            ],
                        ),
                        AssertKind::OverflowNeg(a) => {
                            ("OverflowNeg", vec![("a", self.operand(did, body, a))])
                        }
                        AssertKind::DivisionByZero(a) => {
                            ("DivisionByZero", vec![("a", self.operand(did, body, a))])
                        }
                        AssertKind::RemainderByZero(a) => {
                            ("RemainderByZero", vec![("a", self.operand(did, body, a))])
                        }
                        _ => ("Other", vec![("dbg", dbg(msg))]),
                    };
                    t.push(("msg", s(mk)));
                    for e in extra {
                        t.push(e);
                    }
                    t.push(("target", self.bb(*target)));
                    t.push(("unwind", self.unwind(unwind)));
                }
                TerminatorKind::Call {
                    func,
                    args,
                    destination,
                    target,
                    unwind,
                    ..
                } => {
                    t.push(("k", s("call")));
                    let fty = func.ty(&body.local_decls, tcx);
                    match fty.kind() {
                        ty::FnDef(cdid, gargs) => {
                            t.push(("callee", s(self.path(*cdid))));
                            t.push(("callee_full", s(tcx.def_path_str_with_args(*cdid, gargs))));
                            t.push((
                                "gargs",
                                J::Arr(gargs.iter().map(|g| s(format!("{}", g))).collect()),
                            ));
                            t.push(("callee_local", J::Bool(cdid.is_local())));
                            let tenv = TypingEnv::post_analysis(tcx, did);
                            if let Ok(Some(inst)) =
                                ty::Instance::try_resolve(tcx, tenv, *cdid, gargs)
                            {
                                t.push(("target_fn", s(self.path(inst.def_id()))));
                                t.push(("target_local", J::Bool(inst.def_id().is_local())));
                                match inst.def {
                                    ty::InstanceKind::Virtual(..) => {
                                        t.push(("virtual", J::Bool(true)))
                                    }
                                    ty::InstanceKind::Item(_) => {}
                                    other => t.push(("inst_kind", {
                                        let full = format!("{:?}", other);
                                        s(full.split('(').next().unwrap_or("").to_string())
                                    })),
                                }
                            }
                        }
                        _ => {
                            t.push(("callee", J::Null));
                            t.push(("fn_operand", self.operand(did, body, func)));
                            t.push(("fn_ty", s(self.ty_str(fty))));
                        }
                    }
                    t.push((
                        "args",
                        J::Arr(
                            args.iter()
                                .map(|a| self.operand(did, body, &a.node))
                                .collect(),
                        ),
                    ));
                    t.push((
                        "arg_tys",
                        J::Arr(
                            args.iter()
                                .map(|a| s(self.ty_str(a.node.ty(&body.local_decls, tcx))))
                                .collect(),
                        ),
                    ));
                    t.push(("dest", self.place(body, destination)));
                    t.push((
                        "target",
                        match target {
                            Some(b) => self.bb(*b),
                            None => J::Null,
                        },
                    ));
                    t.push(("unwind", self.unwind(unwind)));
                }
                other => {
                    t.push(("k", s("other")));
                    t.push(("dbg", dbg(other)));
                    let succ: Vec<J> = term.successors().map(|b| self.bb(b)).collect();
                    t.push(("succ", J::Arr(succ)));
                }
            }
            let mut b = vec![("s", J::Arr(stmts)), ("t", obj(t))];
            if data.is_cleanup {
                b.push(("cleanup", J::Bool(true)));
            }
            blocks.push(obj(b));
        }
        f.push(("blocks", J::Arr(blocks)));
        // promoted constants: which named items each one mentions
        if matches!(kind, DefKind::Fn | DefKind::AssocFn | DefKind::Closure) {
            let proms = tcx.promoted_mir(did);
            let mut pj = Vec::new();
            for pb in proms.iter() {
                let mut names: Vec<String> = Vec::new();
                for data in pb.basic_blocks.iter() {
                    for st in data.statements.iter() {
                        if let StatementKind::Assign(box (_, rv)) = &st.kind {
                            let mut ops: Vec<&Operand<'tcx>> = Vec::new();
                            if let Rvalue::Aggregate(box AggregateKind::Closure(cdid, _), _) = rv {
                                names.push(self.path(*cdid));
                            }
                            match rv {
                                Rvalue::Use(o, ..) | Rvalue::Cast(_, o, _) | Rvalue::UnaryOp(_, o) => {
                                    ops.push(o)
                                }
                                Rvalue::BinaryOp(_, box (a, b)) => {
                                    ops.push(a);
                                    ops.push(b);
                                }
                                Rvalue::Aggregate(_, os) => {
                                    for o in os.iter() {
                                        ops.push(o)
                                    }
                                }
                                _ => {}
                            }
                            for o in ops {
                                if let Operand::Constant(c) = o {
                                    let j = self.const_val(did, &c.const_, c.span);
                                    if let J::Obj(kv) = &j {
                                        for (k, v) in kv.iter() {
                                            if k == "uneval" || k == "static" || k == "fn" || k == "closure" {
                                                if let J::Str(sv) = v {
                                                    names.push(sv.clone());
                                                }
                                            }
                                        }
                                    }
                                }
                            }
                        }
                    }
                }
                pj.push(J::Arr(names.into_iter().map(s).collect()));
            }
            f.push(("promoted", J::Arr(pj)));
        }
        obj(f)
    }

    // ---------------- HIR expression dump (literal tables) -----------------
    fn hir_expr(&self, owner: hir::def_id::LocalDefId, e: &hir::Expr<'tcx>, depth: usize) -> J {
        use hir::ExprKind as K;
        if depth > 200 {
            return s("<deep>");
        }
        let tcx = self.tcx;
        let d = depth + 1;
        match &e.kind {
            K::Lit(l) => {
                use rustc_ast::LitKind as L;
                match &l.node {
                    L::Str(sym, _) => obj(vec![("lit", s("str")), ("v", s(sym.to_string()))]),
                    L::ByteStr(b, _) | L::CStr(b, _) => obj(vec![
                        ("lit", s("bytes")),
                        (
                            "v",
                            J::Arr(b.as_byte_str().iter().map(|x| J::Num(*x as i128)).collect()),
                        ),
                    ]),
                    L::Byte(b) => obj(vec![("lit", s("int")), ("v", J::Num(*b as i128))]),
                    L::Char(c) => obj(vec![("lit", s("char")), ("v", s(c.to_string()))]),
                    L::Int(v, _) => obj(vec![("lit", s("int")), ("v", J::Num(v.get() as i128))]),
                    L::Bool(b) => obj(vec![("lit", s("bool")), ("v", J::Bool(*b))]),
                    other => obj(vec![("lit", s("other")), ("dbg", dbg(other))]),
                }
            }
            K::Array(es) => obj(vec![(
                "array",
                J::Arr(es.iter().map(|x| self.hir_expr(owner, x, d)).collect()),
            )]),
            K::Tup(es) => obj(vec![(
                "tup",
                J::Arr(es.iter().map(|x| self.hir_expr(owner, x, d)).collect()),
            )]),
            K::Struct(qp, fields, _) => {
                let res = tcx.typeck(owner).qpath_res(qp, e.hir_id);
                let p = match res.opt_def_id() {
                    Some(did) => self.path(did),
                    None => format!("{:?}", res),
                };
                obj(vec![
                    ("struct", s(p)),
                    (
                        "fields",
                        J::Obj(
                            fields
                                .iter()
                                .map(|f| (f.ident.to_string(), self.hir_expr(owner, f.expr, d)))
                                .collect(),
                        ),
                    ),
                ])
            }
            K::Call(f, args) => obj(vec![
                ("call", self.hir_expr(owner, f, d)),
                (
                    "args",
                    J::Arr(args.iter().map(|x| self.hir_expr(owner, x, d)).collect()),
                ),
            ]),
            K::MethodCall(seg, recv, args, _) => {
                let mdef = tcx
                    .typeck(owner)
                    .type_dependent_def_id(e.hir_id)
                    .map(|d| self.path(d))
                    .unwrap_or_default();
                obj(vec![
                    ("method", s(seg.ident.to_string())),
                    ("def", s(mdef)),
                    ("recv", self.hir_expr(owner, recv, d)),
                    (
                        "args",
                        J::Arr(args.iter().map(|x| self.hir_expr(owner, x, d)).collect()),
                    ),
                ])
            }
            K::Path(qp) => {
                let res = tcx.typeck(owner).qpath_res(qp, e.hir_id);
                let p = match res {
                    hir::def::Res::Def(_, did) => self.path(did),
                    hir::def::Res::Local(_) => "<local>".to_string(),
                    other => format!("{:?}", other),
                };
                obj(vec![("path", s(p))])
            }
            K::AddrOf(_, _, x) => obj(vec![("addr", self.hir_expr(owner, x, d))]),
            K::Unary(op, x) => obj(vec![("un", dbg(op)), ("e", self.hir_expr(owner, x, d))]),
            K::Binary(op, a, b) => obj(vec![
                ("bin", dbg(&op.node)),
                ("a", self.hir_expr(owner, a, d)),
                ("b", self.hir_expr(owner, b, d)),
            ]),
            K::Cast(x, _) => obj(vec![("cast", self.hir_expr(owner, x, d))]),
            K::DropTemps(x) => self.hir_expr(owner, x, d),
            K::Use(x, _) => self.hir_expr(owner, x, d),
            K::Block(b, _) => {
                let mut items = Vec::new();
                for st in b.stmts.iter() {
                    match &st.kind {
                        hir::StmtKind::Let(l) => {
                            if let Some(init) = l.init {
                                items.push(obj(vec![("let", self.hir_expr(owner, init, d))]));
                            }
                        }
                        hir::StmtKind::Expr(x) | hir::StmtKind::Semi(x) => {
                            items.push(self.hir_expr(owner, x, d));
                        }
                        _ => {}
                    }
                }
                let tail = match b.expr {
                    Some(x) => self.hir_expr(owner, x, d),
                    None => J::Null,
                };
                obj(vec![("block", J::Arr(items)), ("tail", tail)])
            }
            K::Closure(c) => {
                let body = tcx.hir_body(c.body);
                obj(vec![("closure", self.hir_expr(owner, body.value, d))])
            }
            K::Field(x, id) => obj(vec![
                ("field", s(id.to_string())),
                ("e", self.hir_expr(owner, x, d)),
            ]),
            K::Index(a, b, _) => obj(vec![
                ("index", self.hir_expr(owner, a, d)),
                ("i", self.hir_expr(owner, b, d)),
            ]),
            K::Repeat(x, _) => obj(vec![("repeat", self.hir_expr(owner, x, d))]),
            K::ConstBlock(cb) => {
                let body = tcx.hir_body(cb.body);
                obj(vec![("constblock", self.hir_expr(owner, body.value, d))])
            }
            other => {
                let full = format!("{:?}", other);
                let name: String = full
                    .chars()
                    .take_while(|c| c.is_alphanumeric() || *c == '_')
                    .collect();
                obj(vec![("other", s(name))])
            }
        }
    }
}

impl rustc_driver::Callbacks for Cb {
    fn after_analysis<'tcx>(&mut self, _c: &Compiler, tcx: TyCtxt<'tcx>) -> Compilation {
        let crate_name = tcx.crate_name(LOCAL_CRATE).to_string();
        let want = std::env::var("MIRFACTS_CRATES").unwrap_or_default();
        let primary = std::env::var("CARGO_PRIMARY_PACKAGE").is_ok();
        if !want
            .split(',')
            .any(|c| c == crate_name || (c == "@primary" && primary))
        {
            return Compilation::Continue;
        }
        let out_dir = match std::env::var("MIRFACTS_OUT") {
            Ok(d) => d,
            Err(_) => return Compilation::Continue,
        };
        // Only library / bin targets of interest; skip build scripts.
        if crate_name.starts_with("build_script") {
            return Compilation::Continue;
        }
        let hir_want: Vec<String> = std::env::var("MIRFACTS_HIR")
            .unwrap_or_default()
            .split(',')
            .filter(|x| !x.is_empty())
            .map(|x| x.to_string())
            .collect();
        let crate_types: Vec<String> = tcx
            .crate_types()
            .iter()
            .map(|c| format!("{:?}", c))
            .collect();

        let doc = with_no_trimmed_paths!({
            let cx = Cx { tcx };
            let mut functions = Vec::new();
            let mut keys: Vec<DefId> = tcx.mir_keys(()).iter().map(|l| l.to_def_id()).collect();
            keys.sort_by_key(|d| tcx.def_path_str(*d));
            for did in keys {
                let kind = tcx.def_kind(did);
                if !matches!(kind, DefKind::Fn | DefKind::AssocFn | DefKind::Closure) {
                    continue;
                }
                functions.push(cx.function(did));
            }

            let mut statics = Vec::new();
            let mut adts = Vec::new();
            let mut impls = Vec::new();
            let mut hir_tables: Vec<(String, J)> = Vec::new();
            let mut consts = Vec::new();
            for ldid in tcx.hir_crate_items(()).definitions() {
                let did = ldid.to_def_id();
                let kind = tcx.def_kind(did);
                match kind {
                    DefKind::Static { mutability, .. } => {
                        let tenv = TypingEnv::post_analysis(tcx, did);
                        let ty = tcx.type_of(did).instantiate_identity().skip_norm_wip();
                        let (file, line, _) = cx.span_info(tcx.def_span(did));
                        let mut targs = Vec::new();
                        if let ty::Adt(_, ga) = ty.kind() {
                            for g in ga.iter() {
                                if let Some(t) = g.as_type() {
                                    targs.push(obj(vec![
                                        ("ty", s(cx.ty_str(t))),
                                        ("freeze", J::Bool(t.is_freeze(tcx, tenv))),
                                    ]));
                                }
                            }
                        }
                        statics.push(obj(vec![
                            ("path", s(cx.path(did))),
                            ("ty", s(cx.ty_str(ty))),
                            ("mut", J::Bool(mutability.is_mut())),
                            ("freeze", J::Bool(ty.is_freeze(tcx, tenv))),
                            ("thread_local", J::Bool(tcx.is_thread_local_static(did))),
                            ("ty_args", J::Arr(targs)),
                            ("file", s(file)),
                            ("line", J::Num(line as i128)),
                        ]));
                    }
                    DefKind::Const { .. } | DefKind::AssocConst { .. } => {
                        let ty = tcx.type_of(did).instantiate_identity().skip_norm_wip();
                        let (file, line, _) = cx.span_info(tcx.def_span(did));
                        let mut v = vec![
                            ("path", s(cx.path(did))),
                            ("ty", s(cx.ty_str(ty))),
                            ("file", s(file)),
                            ("line", J::Num(line as i128)),
                        ];
                        if ty.is_integral() || ty.is_bool() {
                            if let Ok(cv) = tcx.const_eval_poly(did) {
                                if let Some(si) = cv.try_to_scalar_int() {
                                    let size = si.size();
                                    let bits = si.to_bits(size);
                                    let val: i128 = if ty.is_signed() {
                                        size.sign_extend(bits)
                                    } else {
                                        bits as i128
                                    };
                                    v.push(("int", J::Num(val)));
                                }
                            }
                        } else if ty.peel_refs().is_str() {
                            if let Ok(cv) = tcx.const_eval_poly(did) {
                                if let Some(bytes) = cv.try_get_slice_bytes_for_diagnostics(tcx) {
                                    v.push(("str", s(String::from_utf8_lossy(bytes).to_string())));
                                }
                            }
                        }
                        consts.push(obj(v));
                    }
                    DefKind::Struct | DefKind::Enum => {
                        let adt = tcx.adt_def(did);
                        let mut variants = Vec::new();
                        for v in adt.variants().iter() {
                            let fields: Vec<J> = v
                                .fields
                                .iter()
                                .map(|fd| {
                                    obj(vec![
                                        ("name", s(fd.name.to_string())),
                                        (
                                            "ty",
                                            s(cx.ty_str(
                                                tcx.type_of(fd.did)
                                                    .instantiate_identity()
                                                    .skip_norm_wip(),
                                            )),
                                        ),
                                    ])
                                })
                                .collect();
                            variants.push(obj(vec![
                                ("name", s(v.name.to_string())),
                                ("fields", J::Arr(fields)),
                            ]));
                        }
                        adts.push(obj(vec![
                            ("path", s(cx.path(did))),
                            ("kind", dbg(&kind)),
                            ("variants", J::Arr(variants)),
                        ]));
                    }
                    DefKind::Impl { of_trait } => {
                        let self_ty = tcx.type_of(did).instantiate_identity().skip_norm_wip();
                        let mut v = vec![
                            ("path", s(cx.path(did))),
                            ("self_ty", s(cx.ty_str(self_ty))),
                        ];
                        if of_trait {
                            let tr = tcx.impl_trait_ref(did).instantiate_identity().skip_norm_wip();
                            v.push(("trait", s(cx.path(tr.def_id))));
                            v.push(("trait_full", s(format!("{}", tr))));
                        }
                        let mut methods = Vec::new();
                        for it in tcx.associated_items(did).in_definition_order() {
                            if !matches!(it.kind, ty::AssocKind::Fn { .. }) {
                                continue;
                            }
                            let mut m = vec![("impl_fn", s(cx.path(it.def_id)))];
                            if let Some(td) = it.trait_item_def_id() {
                                m.push(("trait_fn", s(cx.path(td))));
                            }
                            methods.push(obj(m));
                        }
                        v.push(("methods", J::Arr(methods)));
                        impls.push(obj(v));
                    }
                    _ => {}
                }
                if !hir_want.is_empty() {
                    let p = cx.path(did);
                    // literal tables: every const/static whose type is an array (or a
                    // reference to one/a slice) is dumped, plus the requested items
                    let is_table = matches!(kind, DefKind::Const { .. } | DefKind::Static { .. }) && {
                        let ty = tcx.type_of(did).instantiate_identity().skip_norm_wip();
                        let inner = ty.peel_refs();
                        inner.is_array() || inner.is_slice()
                    };
                    if (is_table || hir_want.iter().any(|w| *w == p))
                        && matches!(
                            kind,
                            DefKind::Const { .. }
                                | DefKind::Static { .. }
                                | DefKind::Fn
                                | DefKind::AssocFn
                        )
                    {
                        if let Some(body) = tcx.hir_maybe_body_owned_by(ldid) {
                            hir_tables.push((p, cx.hir_expr(ldid, body.value, 0)));
                        }
                    }
                }
            }
            obj(vec![
                ("crate", s(crate_name.clone())),
                ("crate_types", J::Arr(crate_types.iter().map(|c| s(c.clone())).collect())),
                (
                    "features",
                    s(std::env::var("CARGO_CFG_FEATURE").unwrap_or_default()),
                ),
                ("functions", J::Arr(functions)),
                ("statics", J::Arr(statics)),
                ("consts", J::Arr(consts)),
                ("adts", J::Arr(adts)),
                ("impls", J::Arr(impls)),
                ("hir", J::Obj(hir_tables)),
            ])
        });

        let _ = std::fs::create_dir_all(&out_dir);
        // one write per process; the crate type disambiguates lib and bins
        let kind = if crate_types.iter().any(|c| c == "Executable") {
            "bin"
        } else {
            "lib"
        };
        let tmp = format!("{}/.{}-{}-{}.tmp", out_dir, crate_name, kind, std::process::id());
        let fin = format!("{}/{}-{}.json", out_dir, crate_name, kind);
        let mut out = String::new();
        doc.write(&mut out);
        std::fs::write(&tmp, out.as_bytes()).expect("mirfacts: cannot write facts");
        std::fs::rename(&tmp, &fin).expect("mirfacts: cannot rename facts");
        Compilation::Continue
    }
}

fn main() {
    let mut args: Vec<String> = std::env::args().collect();
    // RUSTC_WRAPPER / RUSTC_WORKSPACE_WRAPPER: argv[1] is the path of the real rustc
    if args.len() > 1 && !args[1].starts_with('-') && args[1].contains("rustc") {
        args.remove(1);
    }
    rustc_driver::run_compiler(&args, &mut Cb);
}
