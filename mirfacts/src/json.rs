// Minimal JSON value + serializer (no dependencies available offline for a
// rustc_private driver, and none needed).
pub enum J {
    Null,
    Bool(bool),
    Num(i128),
    Str(String),
    Arr(Vec<J>),
    Obj(Vec<(String, J)>),
}

fn esc(s: &str, out: &mut String) {
    out.push('"');
    for c in s.chars() {
        match c {
            '"' => out.push_str("\\\""),
            '\\' => out.push_str("\\\\"),
            '\n' => out.push_str("\\n"),
            '\r' => out.push_str("\\r"),
            '\t' => out.push_str("\\t"),
            c if (c as u32) < 0x20 => out.push_str(&format!("\\u{:04x}", c as u32)),
            c => out.push(c),
        }
    }
    out.push('"');
}

impl J {
    pub fn write(&self, out: &mut String) {
        match self {
            J::Null => out.push_str("null"),
            J::Bool(b) => out.push_str(if *b { "true" } else { "false" }),
            J::Num(n) => out.push_str(&n.to_string()),
            J::Str(s) => esc(s, out),
            J::Arr(v) => {
                out.push('[');
                for (i, x) in v.iter().enumerate() {
                    if i > 0 {
                        out.push(',');
                    }
                    x.write(out);
                }
                out.push(']');
            }
            J::Obj(v) => {
                out.push('{');
                for (i, (k, x)) in v.iter().enumerate() {
                    if i > 0 {
                        out.push(',');
                    }
                    esc(k, out);
                    out.push(':');
                    x.write(out);
                }
                out.push('}');
            }
        }
    }
}
